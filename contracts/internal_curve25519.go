//go:build verif

// Contracts for package curve25519 (field arithmetic mod P = 2^255-19).
// This file contains only comments; it never changes a build.
// The //@ lines are read by /verif/govc.

package curve25519

//@ config any
//@ const P = (1<<255) - 19

// ===================================================================
// 64-bit layout: 5 limbs of 51 bits
// ===================================================================

//@ config limbs64
//@ spec fval(x) = x[0] + x[1]<<51 + x[2]<<102 + x[3]<<153 + x[4]<<204
//
// Magnitude classes (derived from the code, checked at every call site):
//   RED   output of Mul/Square/SquareTimes/AddReduce/SubReduce/Neg/Expand
//   B1    result of one Add/Sub on RED operands
//   B2    result of one AddAfterBasic/SubAfterBasic on B1 operands
//   MULIN weakest bound under which Mul/Square are exact
//@ class RED   = [1<<51 + 1<<17, 1<<51 + 1<<17, 1<<51 + 1<<17, 1<<51 + 1<<17, 1<<51 + 1<<17]
//@ class TWOP  = [0x0fffffffffffda, 0x0ffffffffffffe, 0x0ffffffffffffe, 0x0ffffffffffffe, 0x0ffffffffffffe]
//@ class FOURP = [0x1fffffffffffb4, 0x1ffffffffffffc, 0x1ffffffffffffc, 0x1ffffffffffffc, 0x1ffffffffffffc]
//@ class B1    = [1<<53, 1<<53, 1<<53, 1<<53, 1<<53]
//@ class B2    = [1<<54, 1<<54, 1<<54, 1<<54, 1<<54]
//@ class MULIN = [1<<54, 1<<54, 1<<54, 1<<54, 1<<54]
//@ class HALF  = [1<<62, 1<<62, 1<<62, 1<<62, 1<<62]
// layout-independent names used by the callers' contracts
//@ class ADD1  = [1<<53, 1<<53, 1<<53, 1<<53, 1<<53]
//@ class SUB1  = [1<<53, 1<<53, 1<<53, 1<<53, 1<<53]
//@ class U1    = [1<<53, 1<<53, 1<<53, 1<<53, 1<<53]
//@ class CANON = [1<<51 - 1, 1<<51 - 1, 1<<51 - 1, 1<<51 - 1, 1<<51 - 1]
//@ class AB    = [1<<54, 1<<54, 1<<54, 1<<54, 1<<54]
//@ spec mulok(x) = mag(x, MULIN)
//@ spec isone(x) = x[0] == 1 && x[1] == 0 && x[2] == 0 && x[3] == 0 && x[4] == 0

//@ func (*Bignum25519).Reset(out)
//@   ct
//@   modifies *out
//@   ensures forall(i, 0, 5, out[i] == 0)

//@ func Copy(out, in)
//@   ct
//@   alias out==in
//@   modifies *out
//@   ensures *out == old(*in)

//@ func Add(out, a, b)
//@   ct
//@   alias out==a | out==b | a==b | out==a==b
//@   requires mag(*a, HALF) && mag(*b, HALF)
//@   modifies *out
//@   ensures forall(i, 0, 5, out[i] == old(a[i]) + old(b[i]))

//@ func AddAfterBasic(out, a, b)
//@   ct
//@   alias out==a | out==b | a==b | out==a==b
//@   requires mag(*a, HALF) && mag(*b, HALF)
//@   modifies *out
//@   ensures forall(i, 0, 5, out[i] == old(a[i]) + old(b[i]))

//@ func AddReduce(out, a, b)
//@   ct
//@   alias out==a | out==b | a==b | out==a==b
//@   requires mag(*a, B2) && mag(*b, B2)
//@   modifies *out
//@   ensures mag(*out, RED)
//@   ensures cong(fval(*out), fval(old(*a)) + fval(old(*b)), P)

//@ func Sub(out, a, b)
//@   ct
//@   alias out==a | out==b | a==b | out==a==b
//@   requires mag(*a, HALF) && mag(*b, TWOP)
//@   modifies *out
//@   ensures out[0] == old(a[0]) + 0x0fffffffffffda - old(b[0])
//@   ensures forall(i, 1, 5, out[i] == old(a[i]) + 0x0ffffffffffffe - old(b[i]))

//@ func SubAfterBasic(out, a, b)
//@   ct
//@   alias out==a | out==b | a==b | out==a==b
//@   requires mag(*a, HALF) && mag(*b, FOURP)
//@   modifies *out
//@   ensures out[0] == old(a[0]) + 0x1fffffffffffb4 - old(b[0])
//@   ensures forall(i, 1, 5, out[i] == old(a[i]) + 0x1ffffffffffffc - old(b[i]))

//@ func SubReduce(out, a, b)
//@   ct
//@   alias out==a | out==b | a==b | out==a==b
//@   requires mag(*a, B2) && mag(*b, FOURP)
//@   modifies *out
//@   ensures mag(*out, RED)
//@   ensures cong(fval(*out), fval(old(*a)) - fval(old(*b)), P)

//@ func Neg(out, a)
//@   ct
//@   alias out==a
//@   requires mag(*a, TWOP)
//@   modifies *out
//@   ensures mag(*out, RED)
//@   ensures cong(fval(*out), 0 - fval(old(*a)), P)

//@ func Mul(out, in2, in)
//@   ct
//@   alias out==in2 | out==in | in2==in | out==in2==in
//@   requires mag(*in2, MULIN) && mag(*in, MULIN)
//@   modifies *out
//@   ensures mag(*out, RED)
//@   ensures cong(fval(*out), fval(old(*in2)) * fval(old(*in)), P)

//@ func Square(out, in)
//@   ct
//@   alias out==in
//@   requires mag(*in, MULIN)
//@   modifies *out
//@   ensures mag(*out, RED)
//@   ensures cong(fval(*out), fval(old(*in)) * fval(old(*in)), P)

//@ func SquareTimes(out, in, count)
//@   ct public count
//@   alias out==in
//@   requires mag(*in, MULIN) && count >= 0
//@   modifies *out
//@   loop#1 modifies i, r0, r1, r2, r3, r4
//@   loop#1 invariant 0 <= i && i <= count
//@   loop#1 invariant r0 <= 1<<54 && r1 <= 1<<54 && r2 <= 1<<54 && r3 <= 1<<54 && r4 <= 1<<54
//@   loop#1 invariant i >= 1 ==> (r0 <= 1<<51 + 1<<17 && r1 <= 1<<51 + 1<<17 && r2 <= 1<<51 + 1<<17 && r3 <= 1<<51 + 1<<17 && r4 <= 1<<51 + 1<<17)
//@   loop#1 invariant cong(r0 + r1<<51 + r2<<102 + r3<<153 + r4<<204, sqn(fval(old(*in)), i, P), P)
//@   ensures count >= 1 ==> mag(*out, RED)
//@   ensures mag(*out, MULIN)
//@   ensures cong(fval(*out), sqn(fval(old(*in)), count, P), P)

//@ func Expand(out, in)
//@   ct
//@   requires len(in) >= 32
//@   modifies *out
//@   ensures mag(*out, CANON)
//@   ensures fval(*out) == le(in[0:32]) % (1<<255)

//@ func Contract(out, input)
//@   ct
//@   requires len(out) >= 32 && mag(*input, B2)
//@   modifies out[0:32]
//@   cut call#1 havoc t : t[0] < 1<<51 + 1<<10 && forall(i, 1, 5, t[i] < 1<<51) && cong(fval(t), fval(old(*input)), P)
//@   cut call#2 havoc t : forall(i, 0, 5, t[i] < 1<<51) && cong(fval(t), fval(old(*input)), P)
//@   cut call#3 havoc t : forall(i, 0, 5, t[i] < 1<<51) && fval(t) == fval(old(*input)) % P + 19
//@   cut call#4 havoc t : forall(i, 0, 5, t[i] < 1<<51) && fval(t) == fval(old(*input)) % P
//@   ensures le(out[0:32]) == fval(old(*input)) % P

//@ func SwapConditional(a, b, iswap)
//@   ct
//@   requires iswap == 0 || iswap == 1
//@   modifies *a, *b
//@   ensures iswap == 1 ==> (*a == old(*b) && *b == old(*a))
//@   ensures iswap == 0 ==> (*a == old(*a) && *b == old(*b))


// ===================================================================
// 32-bit layout: 10 limbs of alternately 26 and 25 bits
// ===================================================================

//@ config limbs32
//@ spec fval(x) = x[0] + x[1]<<26 + x[2]<<51 + x[3]<<77 + x[4]<<102 + x[5]<<128 + x[6]<<153 + x[7]<<179 + x[8]<<204 + x[9]<<230
//
//   RED   output of Mul/Square/SquareTimes/AddAfterBasic/SubAfterBasic/...Reduce/Neg/Expand
//   ADD1  Add of two RED operands (no carry)
//   SUB1  Sub of two RED operands (limbs 0..3 carried, 4..9 biased by 2p)
//   U1    limb-wise maximum of ADD1 and SUB1
//@ class CANON = [1<<26 - 1, 1<<25 - 1, 1<<26 - 1, 1<<25 - 1, 1<<26 - 1, 1<<25 - 1, 1<<26 - 1, 1<<25 - 1, 1<<26 - 1, 1<<25 - 1]
//@ class RED   = [1<<26 + 1<<13, 1<<25 + 1<<13, 1<<26 + 1<<13, 1<<25 + 1<<13, 1<<26 + 1<<13, 1<<25 + 1<<13, 1<<26 + 1<<13, 1<<25 + 1<<13, 1<<26 + 1<<13, 1<<25 + 1<<13]
//@ class ADD1  = [1<<27 + 1<<14, 1<<26 + 1<<14, 1<<27 + 1<<14, 1<<26 + 1<<14, 1<<27 + 1<<14, 1<<26 + 1<<14, 1<<27 + 1<<14, 1<<26 + 1<<14, 1<<27 + 1<<14, 1<<26 + 1<<14]
//@ class SUB1  = [1<<26, 1<<25, 1<<26, 1<<25, 3<<26 + 1<<14, 3<<25 + 1<<13, 3<<26 + 1<<13, 3<<25 + 1<<13, 3<<26 + 1<<13, 3<<25 + 1<<13]
//@ class U1    = [1<<27 + 1<<14, 1<<26 + 1<<14, 1<<27 + 1<<14, 1<<26 + 1<<14, 3<<26 + 1<<14, 3<<25 + 1<<14, 3<<26 + 1<<14, 3<<25 + 1<<14, 3<<26 + 1<<14, 3<<25 + 1<<14]
//@ class TWOP  = [0x07ffffda, 0x03fffffe, 0x07fffffe, 0x03fffffe, 0x07fffffe, 0x03fffffe, 0x07fffffe, 0x03fffffe, 0x07fffffe, 0x03fffffe]
//@ class FOURP = [0x0fffffb4, 0x07fffffc, 0x0ffffffc, 0x07fffffc, 0x0ffffffc, 0x07fffffc, 0x0ffffffc, 0x07fffffc, 0x0ffffffc, 0x07fffffc]
//@ class HALF  = [1<<30, 1<<30, 1<<30, 1<<30, 1<<30, 1<<30, 1<<30, 1<<30, 1<<30, 1<<30]
//@ class AB    = [1<<26 + 1<<13, 1<<25 + 1<<13, 1<<26 + 1<<13, 1<<25 + 1<<13, 1<<26 + 1<<13, 1<<25 + 1<<13, 1<<26 + 1<<13, 1<<25 + 1<<13, 1<<26 + 1<<13, 1<<25 + 1<<13]
//@ spec mulok(x) = mag(x, ADD1) || mag(x, SUB1)
//@ spec isone(x) = x[0] == 1 && forall(i, 1, 10, x[i] == 0)
//@ class B2    = [1<<27 + 1<<14, 1<<26 + 1<<14, 1<<27 + 1<<14, 1<<26 + 1<<14, 3<<26 + 1<<14, 3<<25 + 1<<14, 3<<26 + 1<<14, 3<<25 + 1<<14, 3<<26 + 1<<14, 3<<25 + 1<<14]

//@ func (*Bignum25519).Reset(out)
//@   ct
//@   modifies *out
//@   ensures forall(i, 0, 10, out[i] == 0)

//@ func Copy(out, in)
//@   ct
//@   alias out==in
//@   modifies *out
//@   ensures *out == old(*in)

//@ func Add(out, a, b)
//@   ct
//@   alias out==a | out==b | a==b | out==a==b
//@   requires mag(*a, HALF) && mag(*b, HALF)
//@   modifies *out
//@   ensures forall(i, 0, 10, out[i] == old(a[i]) + old(b[i]))

//@ func AddAfterBasic(out, a, b)
//@   ct
//@   alias out==a | out==b | a==b | out==a==b
//@   requires mag(*a, U1) && mag(*b, U1)
//@   modifies *out
//@   ensures mag(*out, RED)
//@   ensures cong(fval(*out), fval(old(*a)) + fval(old(*b)), P)

//@ func AddReduce(out, a, b)
//@   ct
//@   alias out==a | out==b | a==b | out==a==b
//@   requires mag(*a, U1) && mag(*b, U1)
//@   modifies *out
//@   ensures mag(*out, RED)
//@   ensures cong(fval(*out), fval(old(*a)) + fval(old(*b)), P)

//@ func Sub(out, a, b)
//@   ct
//@   alias out==a | out==b | a==b | out==a==b
//@   requires mag(*a, RED) && mag(*b, RED)
//@   modifies *out
//@   ensures mag(*out, SUB1)
//@   ensures cong(fval(*out), fval(old(*a)) - fval(old(*b)), P)

//@ func SubAfterBasic(out, a, b)
//@   ct
//@   alias out==a | out==b | a==b | out==a==b
//@   requires mag(*a, U1) && mag(*b, U1)
//@   modifies *out
//@   ensures mag(*out, RED)
//@   ensures cong(fval(*out), fval(old(*a)) - fval(old(*b)), P)

//@ func SubReduce(out, a, b)
//@   ct
//@   alias out==a | out==b | a==b | out==a==b
//@   requires mag(*a, U1) && mag(*b, U1)
//@   modifies *out
//@   ensures mag(*out, RED)
//@   ensures cong(fval(*out), fval(old(*a)) - fval(old(*b)), P)

//@ func Neg(out, a)
//@   ct
//@   alias out==a
//@   requires mag(*a, TWOP)
//@   modifies *out
//@   ensures mag(*out, RED)
//@   ensures cong(fval(*out), 0 - fval(old(*a)), P)

//@ func Mul(out, a, b)
//@   ct
//@   alias out==a | out==b | a==b | out==a==b
//@   cases mag(*a, U1) && mag(*b, ADD1) | mag(*a, U1) && mag(*b, SUB1) | mag(*a, ADD1) && mag(*b, U1) | mag(*a, SUB1) && mag(*b, U1)
//@   modifies *out
//@   ensures mag(*out, RED)
//@   ensures cong(fval(*out), fval(old(*a)) * fval(old(*b)), P)

//@ func Square(out, in)
//@   ct
//@   alias out==in
//@   cases mag(*in, ADD1) | mag(*in, SUB1)
//@   modifies *out
//@   ensures mag(*out, RED)
//@   ensures cong(fval(*out), fval(old(*in)) * fval(old(*in)), P)

//@ func SquareTimes(out, in, count)
//@   ct public count
//@   alias out==in
//@   cases mag(*in, ADD1) && count >= 0 | mag(*in, SUB1) && count >= 0
//@   modifies *out
//@   loop#1 modifies i, r0, r1, r2, r3, r4, r5, r6, r7, r8, r9
//@   loop#1 invariant 1 <= i && i <= count
//@   loop#1 peel 1
//@   loop#1 invariant r0 <= 1<<26 + 1<<13 && r1 <= 1<<25 + 1<<13 && r2 <= 1<<26 + 1<<13 && r3 <= 1<<25 + 1<<13 && r4 <= 1<<26 + 1<<13 && r5 <= 1<<25 + 1<<13 && r6 <= 1<<26 + 1<<13 && r7 <= 1<<25 + 1<<13 && r8 <= 1<<26 + 1<<13 && r9 <= 1<<25 + 1<<13
//@   loop#1 invariant cong(r0 + r1<<26 + r2<<51 + r3<<77 + r4<<102 + r5<<128 + r6<<153 + r7<<179 + r8<<204 + r9<<230, sqn(fval(old(*in)), i, P), P)
//@   ensures count >= 1 ==> mag(*out, RED)
//@   ensures mag(*out, U1)
//@   ensures cong(fval(*out), sqn(fval(old(*in)), count, P), P)

//@ func Expand(out, in)
//@   ct
//@   requires len(in) >= 32
//@   modifies *out
//@   ensures mag(*out, CANON)
//@   ensures fval(*out) == le(in[0:32]) % (1<<255)

//@ func Contract(out, in)
//@   ct
//@   requires len(out) >= 32 && mag(*in, U1)
//@   modifies out[0:32]
//@   cut call#2 havoc f : f[0] < 1<<26 + 1<<10 && forall(i, 1, 10, f[i] <= ite(i % 2 == 0, 1<<26 - 1, 1<<25 - 1)) && cong(fval(f), fval(old(*in)), P)
//@   cut call#3 havoc f : mag(f, CANON) && cong(fval(f), fval(old(*in)), P)
//@   cut call#4 havoc f : mag(f, CANON) && fval(f) == fval(old(*in)) % P + 19
//@   cut call#5 havoc f : mag(f, CANON) && fval(f) == fval(old(*in)) % P
//@   ensures le(out[0:32]) == fval(old(*in)) % P

//@ func SwapConditional(a, b, iswap)
//@   ct
//@   requires iswap == 0 || iswap == 1
//@   modifies *a, *b
//@   ensures iswap == 1 ==> (*a == old(*b) && *b == old(*a))
//@   ensures iswap == 0 ==> (*a == old(*a) && *b == old(*b))

//@ config any

//@ func powTwo5two0Two250mtwo0(b)
//@   ct
//@   requires mag(*b, RED)
//@   modifies *b
//@   ensures mag(*b, RED)
//@   ensures cong(fval(*b), pow(fval(old(*b)), (1<<250 - 1) / 31), P)

//@ func Recip(out, z)
//@   ct
//@   alias out==z
//@   cases mag(*z, ADD1) | mag(*z, SUB1)
//@   modifies *out
//@   ensures mag(*out, RED)
//@   ensures cong(fval(*out), pow(fval(old(*z)), P - 2), P)

//@ func PowTwo252m3(two252m3, z)
//@   ct
//@   alias two252m3==z
//@   cases mag(*z, ADD1) | mag(*z, SUB1)
//@   modifies *two252m3
//@   ensures mag(*two252m3, RED)
//@   ensures cong(fval(*two252m3), pow(fval(old(*z)), (1<<252) - 3), P)
