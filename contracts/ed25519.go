//go:build verif

// Contracts for package ed25519 (API level).
// Comment-only file; the //@ lines are read by /verif/govc.

package ed25519

//@ config any
//@ ufun x25519(Int, Int) Int

// ---------------- options, variants ----------------

//@ func (*Options).HashFunc(opt)
//@   modifies nothing
//@   ensures result == opt.Hash

// Context of 1..255 bytes selects Ed25519ctx, the empty context plain Ed25519; longer ones are refused.
//@ func (*Options).unwrap(opt)
//@   modifies nothing
//@   ensures len(opt.Context) == 0 ==> (result0 == fPure && result1 == nil && result2 == nil)
//@   ensures (1 <= len(opt.Context) && len(opt.Context) <= 255) ==> (result0 == fCtx && result1 != nil && len(result1) == len(opt.Context) && bytesOf(result1) == bytesOf(opt.Context) && result2 == nil)
//@   ensures len(opt.Context) > 255 ==> result2 != nil

// crypto.SHA512 == 7: pre-hashed variant admits exactly 64-byte digests; 0 keeps the variant; anything else is refused.
//@ func checkHash(f, message, hashFunc)
//@   modifies nothing
//@   ensures (hashFunc == 7 && len(message) == 64) ==> (result0 == fPh && result1 == nil)
//@   ensures (hashFunc == 7 && len(message) != 64) ==> result1 != nil
//@   ensures hashFunc == 0 ==> (result0 == f && result1 == nil)
//@   ensures (hashFunc != 0 && hashFunc != 7) ==> result1 != nil

// ---------------- scalar admissibility, small order ----------------

//@ func scMinimal(scalar)
//@   requires len(scalar) >= 32
//@   modifies nothing
//@   ensures result == (le(scalar[0:32]) < L)

//@ func isSmallOrderVartime(s)
//@   requires len(s) >= 32
//@   modifies nothing
//@   ensures result == (!decodable(bytesOf(s[0:32])) || isneutral(smul8(decpt(bytesOf(s[0:32])))))
