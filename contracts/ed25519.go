//go:build verif

// Contracts for package ed25519 (API level).
// Comment-only file; the //@ lines are read by /verif/govc.

package ed25519

//@ config any
//@ ufun x25519(Int, Int) Int

// ---------------- options, variants ----------------

//@ func (*Options).HashFunc(opt)
//@   modifies nothing
//@   ensures result == opt.Hash

// Context of 1..255 bytes selects Ed25519ctx, the empty context plain Ed25519; longer ones are refused.
//@ func (*Options).unwrap(opt)
//@   modifies nothing
//@   ensures len(opt.Context) == 0 ==> (result0 == fPure && result1 == nil && result2 == nil)
//@   ensures (1 <= len(opt.Context) && len(opt.Context) <= 255) ==> (result0 == fCtx && result1 != nil && len(result1) == len(opt.Context) && bytesOf(result1) == bytesOf(opt.Context) && result2 == nil)
//@   ensures len(opt.Context) > 255 ==> result2 != nil

// crypto.SHA512 == 7: pre-hashed variant admits exactly 64-byte digests; 0 keeps the variant; anything else is refused.
//@ func checkHash(f, message, hashFunc)
//@   modifies nothing
//@   ensures (hashFunc == 7 && len(message) == 64) ==> (result0 == fPh && result1 == nil)
//@   ensures (hashFunc == 7 && len(message) != 64) ==> result1 != nil
//@   ensures hashFunc == 0 ==> (result0 == f && result1 == nil)
//@   ensures (hashFunc != 0 && hashFunc != 7) ==> result1 != nil
//@   ensures result1 != nil ==> result0 == f

// ---------------- scalar admissibility, small order ----------------

//@ func scMinimal(scalar)
//@   requires len(scalar) >= 32
//@   modifies nothing
//@   ensures result == (le(scalar[0:32]) < L)

//@ func isSmallOrderVartime(s)
//@   requires len(s) >= 32
//@   modifies nothing
//@   ensures result == (!decodable(bytesOf(s[0:32])) || isneutral(smul8(decpt(bytesOf(s[0:32])))))

// ---------------- verification ----------------

// dom2(f, c) = "SigEd25519 no Ed25519 collisions" || f || len(c) || c  (RFC 8032), empty for plain Ed25519.
// a point has small order iff 8 times it is the identity
//@ spec small(b) = isneutral(smul8(decpt(b)))
// challenge h = SHA-512(dom2(f,c) || R || A || M) mod L over the encodings exactly as supplied;
// cb, cl are the context bytes and the context length
//@ spec hchal(f, cb, cl, rb, ab, m) = ite(f == fPure, lea(sha512(bcat(rb, ab, m)), 0, 64) % L, lea(sha512(bcat(bconst("SigEd25519 no Ed25519 collisions"), bcons(f, bcons(cl, bnil())), cb, rb, ab, m)), 0, 64) % L)

// The documented acceptance predicate: 64-byte signature, S < L, key and R decodable, no small
// order unless ZIP-215, and [8]([S]B - [h]A - R) = O, written as [8]( ([h](-A) + [S]B) - R ).
//@ spec vspec(pk, m, sig, f, cb, cl, zip) = len(sig) == 64 && le(sig[32:64]) < L && decodable(bytesOf(pk[0:32])) && decodable(bytesOf(sig[0:32])) && (zip || (!small(bytesOf(pk[0:32])) && !small(bytesOf(sig[0:32])))) && isneutral(smul8(psub(lc2(pneg(decpt(bytesOf(pk[0:32]))), hchal(f, cb, cl, bytesOf(sig[0:32]), bytesOf(pk[0:32]), bytesOf(m)), le(sig[32:64])), decpt(bytesOf(sig[0:32])))))

//@ func verify(publicKey, message, sig, f, c, zip215)
//@   inline writeDom2
//@   panics len(publicKey) != 32
//@   requires f == fPure || len(c) <= 255
//@   modifies nothing
//@   ensures result == vspec(publicKey, message, sig, f, bytesOf(c), len(c), zip215)

//@ func Verify(publicKey, message, sig)
//@   panics len(publicKey) != 32
//@   modifies nothing
//@   ensures result == vspec(publicKey, message, sig, fPure, bnil(), 0, false)

// variant selected by the options: pre-hashed if Hash is SHA-512, ctx if the context is non-empty, else pure
//@ spec variant(opts) = ite(opts.Hash == 7, fPh, ite(len(opts.Context) > 0, fCtx, fPure))
//@ spec optsok(opts, message) = len(opts.Context) <= 255 && (opts.Hash == 0 || (opts.Hash == 7 && len(message) == 64))

//@ func verifyWithOptionsNoPanic(publicKey, message, sig, opts)
//@   modifies nothing
//@   ensures (result1 == nil) == (optsok(*opts, message) && len(publicKey) == 32)
//@   ensures (result1 == nil && len(opts.Context) == 0) ==> result0 == vspec(publicKey, message, sig, variant(*opts), bnil(), 0, opts.ZIP215Verify)
//@   ensures (result1 == nil && len(opts.Context) > 0) ==> result0 == vspec(publicKey, message, sig, variant(*opts), bytesOf(opts.Context), len(opts.Context), opts.ZIP215Verify)
//@   ensures result1 != nil ==> result0 == false

// panics exactly for a wrong-length key, an over-long context, a wrong pre-hash length or an unsupported hash
//@ func VerifyWithOptions(publicKey, message, sig, opts)
//@   panics !(optsok(*opts, message) && len(publicKey) == 32)
//@   modifies nothing
//@   ensures len(opts.Context) == 0 ==> result == vspec(publicKey, message, sig, variant(*opts), bnil(), 0, opts.ZIP215Verify)
//@   ensures len(opts.Context) > 0 ==> result == vspec(publicKey, message, sig, variant(*opts), bytesOf(opts.Context), len(opts.Context), opts.ZIP215Verify)

// ---------------- keys and signing (RFC 8032 5.1.5, 5.1.6) ----------------

//@ spec hseed(sk) = sha512(bytesOf(sk[0:32]))
// secret scalar a: the first 32 octets of SHA-512(seed), little-endian, after clamping
// (RFC 8032 5.1.5: clear the lowest three bits of the first octet, clear the highest bit of the
// last octet, set the second highest bit of the last octet)
//@ spec clamp0(b) = b - b % 8
//@ spec clamp31(b) = b % 128 + 64 * (1 - (b / 64) % 2)
//@ spec sec_a(sk) = lea(hseed(sk), 0, 32) - sel(hseed(sk), 0) + clamp0(sel(hseed(sk), 0)) + (clamp31(sel(hseed(sk), 31)) - sel(hseed(sk), 31)) << 248
//@ spec nonce(sk, f, cb, cl, m) = ite(f == fPure, lea(sha512(bcat(barr(hseed(sk), 32, 32), m)), 0, 64) % L, lea(sha512(bcat(bconst("SigEd25519 no Ed25519 collisions"), bcons(f, bcons(cl, bnil())), cb, barr(hseed(sk), 32, 32), m)), 0, 64) % L)

//@ func NewKeyFromSeed(seed)
//@   ct
//@   panics len(seed) != 32
//@   modifies nothing
//@   ensures len(result) == 64 && fresh(result)
//@   ensures bytesOf(result[0:32]) == bytesOf(seed[0:32])
//@   ensures bytesOf(result[32:64]) == encpt(mulB(sec_a(seed) % L))

//@ func sign(privateKey, message, f, c)
//@   ct secret privateKey
//@   inline writeDom2
//@   panics len(privateKey) != 64
//@   requires f == fPure || len(c) <= 255
//@   modifies nothing
//@   ensures len(result) == 64 && fresh(result)
//@   ensures bytesOf(result[0:32]) == encpt(mulB(nonce(privateKey, f, bytesOf(c), len(c), bytesOf(message))))
//@   ensures le(result[32:64]) < L
//@   ensures cong(le(result[32:64]), nonce(privateKey, f, bytesOf(c), len(c), bytesOf(message)) + hchal(f, bytesOf(c), len(c), bytesOf(result[0:32]), bytesOf(privateKey[32:64]), bytesOf(message)) * sec_a(privateKey), L)

//@ func Sign(privateKey, message)
//@   ct secret privateKey
//@   panics len(privateKey) != 64
//@   modifies nothing
//@   ensures len(result) == 64 && fresh(result)
//@   ensures bytesOf(result[0:32]) == encpt(mulB(nonce(privateKey, fPure, bnil(), 0, bytesOf(message))))
//@   ensures le(result[32:64]) < L
//@   ensures cong(le(result[32:64]), nonce(privateKey, fPure, bnil(), 0, bytesOf(message)) + hchal(fPure, bnil(), 0, bytesOf(result[0:32]), bytesOf(privateKey[32:64]), bytesOf(message)) * sec_a(privateKey), L)

// crypto.Signer entry point: the variant is selected by the dynamic type of opts, its Hash and its
// Context; the entropy argument is never used.
//@ func (PrivateKey).Sign(priv, rand, message, opts)
//@   ct secret priv pubres 1
//@   requires opts != nil
//@   panics maybe
//@   modifies nothing
//@   ensures entropyReads() == 0
//@   ensures result1 == nil ==> (len(result0) == 64 && fresh(result0) && le(result0[32:64]) < L)

//@ func GenerateKey(rand)
//@   ct secret
//@   modifies nothing
//@   ensures entropyReads() == 1 && entropyRead(0) == 32
//@   ensures result2 != nil ==> (result0 == nil && result1 == nil)
//@   ensures result2 == nil ==> (len(result0) == 32 && len(result1) == 64 && fresh(result0) && fresh(result1) && bytesOf(result0[0:32]) == bytesOf(result1[32:64]))
//@   ensures result2 == nil ==> bytesOf(result1[32:64]) == encpt(mulB(sec_a(result1) % L))

//@ func (PrivateKey).Seed(priv)
//@   ct
//@   requires len(priv) >= 32
//@   modifies nothing
//@   ensures len(result) == 32 && fresh(result) && bytesOf(result[0:32]) == bytesOf(priv[0:32])

//@ func (PrivateKey).Public(priv)
//@   ct
//@   requires len(priv) == 64
//@   modifies nothing
//@   ensures len(unwrap(result)) == 32 && fresh(result) && bytesOf(unwrap(result)[0:32]) == bytesOf(priv[32:64])

// Equal is true exactly for byte-identical keys of the same type
//@ func (PrivateKey).Equal(priv, x)
//@   ct
//@   modifies nothing
//@   ensures istype(x) ==> result == (len(priv) == len(astype(x)) && bytesOf(priv) == bytesOf(astype(x)))
//@   ensures !istype(x) ==> result == false

//@ func (PublicKey).Equal(pub, x)
//@   modifies nothing
//@   ensures istype(x) ==> result == (len(pub) == len(astype(x)) && bytesOf(pub) == bytesOf(astype(x)))
//@   ensures !istype(x) ==> result == false

// writeDom2 is executed from its body in the functional proofs (inline); its secrecy clause:
// the writer is the SHA-512 state, which may already have absorbed secret data.
//@ func writeDom2(w, f, c)
//@   ct-only
//@   ct secret w

// ---------------- batch verification (batch_verify.go) ----------------
// Scratch heap (batchHeap). Its two long arrays carry element invariants: every scalar is a
// reduced scalar (limbs in range, value below L), every point has reduced coordinates. These are
// assumed whenever an element is addressed and proved after every write to an element.

// The Bos-Coster multi-scalar multiplication is NOT verified: trusted contract (memory safety and
// magnitudes only; nothing is claimed here about the point it returns).
//@ func multiScalarmultVartime(r, heap, count)
//@   assumed
//@   elem-invariant heap.scalars : reduced(*elem)
//@   elem-invariant heap.points : red4(*elem)
//@   requires count >= 9 && count <= 129 && count % 2 == 1
//@   modifies *r, heap.points, heap.scalars, heap.heap, heap.size
//@   ensures red4(*r)

//@ func isNeutralVartime(p)
//@   requires red3(*p)
//@   modifies nothing
//@   ensures result == isneutral(smul8(P3(*p)))

// what single verification (verifyWithOptionsNoPanic) reports for one entry under the options
//@ spec ventry(pk, m, sig, opts) = optsok(opts, m) && len(pk) == 32 && ite(len(opts.Context) == 0, vspec(pk, m, sig, variant(opts), bnil(), 0, opts.ZIP215Verify), vspec(pk, m, sig, variant(opts), bytesOf(opts.Context), len(opts.Context), opts.ZIP215Verify))
// G1: an entry that single verification accepts is never marked invalid (holds at every loop head)
//@ spec g1(publicKeys, messages, sigs, opts, valid) = forall(k, 0, len(publicKeys), ventry(publicKeys[k], messages[k], sigs[k], opts) ==> valid[k])

// the dom2 flag carried through the batch loops: the one unwrap chose, or fPh once a pre-hashed entry was seen
//@ spec fbase(opts) = ite(len(opts.Context) > 0, fCtx, fPure)
//@ spec fok(f, opts) = f == fbase(opts) || (opts.Hash == 7 && f == fPh)
// G2: the summary flag is the conjunction of the entries: ret == 0 exactly when no entry is marked invalid
//@ spec g2(valid, ret, n) = 0 <= ret && ret <= 3 && ((ret == 0) == forall(k, 0, n, valid[k]))
// the acceptance conditions of one entry other than the group equation and S < L
//@ spec vpre(pk, m, sig, opts) = len(sig) == 64 && len(pk) == 32 && optsok(opts, m) && decodable(bytesOf(pk[0:32])) && decodable(bytesOf(sig[0:32])) && (opts.ZIP215Verify || (!small(bytesOf(pk[0:32])) && !small(bytesOf(sig[0:32]))))

//@ func VerifyBatch(rand, publicKeys, messages, sigs, opts)
//@   requires opts != nil
//@   modifies nothing
//@   inline writeDom2
//@   elem-invariant batch.scalars : reduced(*elem)
//@   elem-invariant batch.points : red4(*elem)
//@   loop#1 modifies rangeindex, valid[0:len(valid)]
//@   loop#1 invariant -1 <= rangeindex && rangeindex < len(valid) && forall(k, 0, rangeindex + 1, valid[k])
//@   loop#2 modifies f, num, offset, batch, p, hash, ret, valid[0:len(valid)]
//@   loop#2 invariant fok(f, *opts) && g1(publicKeys, messages, sigs, *opts, valid) && g2(valid, ret, len(publicKeys)) && 0 <= offset && 0 <= num && offset + num == len(publicKeys)
//@   loop#3 modifies i, batch.scalars
//@   loop#3 invariant g1(publicKeys, messages, sigs, *opts, valid) && g2(valid, ret, len(publicKeys)) && 0 <= i && i <= batchSize
//@   loop#4 modifies i, batch.scalars, ret, batchOk, valid[0:len(valid)]
//@   loop#4 invariant g1(publicKeys, messages, sigs, *opts, valid) && g2(valid, ret, len(publicKeys)) && 0 <= i && i <= batchSize && forall(k, 0, i, len(sigs[k+offset]) == 64)
//@   loop#5 modifies i, batch.scalars
//@   loop#5 invariant g1(publicKeys, messages, sigs, *opts, valid) && g2(valid, ret, len(publicKeys)) && 1 <= i && i <= batchSize
//@   loop#6 modifies f, i, batch.scalars, hash, ret, batchOk, valid[0:len(valid)]
//@   loop#6 invariant fok(f, *opts) && g1(publicKeys, messages, sigs, *opts, valid) && g2(valid, ret, len(publicKeys)) && 0 <= i && i <= batchSize && forall(k, 0, i, len(publicKeys[k+offset]) == 32 && optsok(*opts, messages[k+offset]) && (opts.ZIP215Verify || !small(bytesOf(publicKeys[k+offset][0:32]))))
//@   loop#7 modifies i, batch.points, ret, batchOk, valid[0:len(valid)]
//@   loop#7 invariant g1(publicKeys, messages, sigs, *opts, valid) && g2(valid, ret, len(publicKeys)) && 0 <= i && i <= batchSize && forall(k, 0, i, decodable(bytesOf(publicKeys[k+offset][0:32])) && decodable(bytesOf(sigs[k+offset][0:32])) && (opts.ZIP215Verify || !small(bytesOf(sigs[k+offset][0:32]))))
// each chunk draws exactly 16 bytes per entry from the entropy source, with io.ReadFull (all or error)
//@   lemma after call ReadFull#1 : entropyRead(entropyReads() - 1) == 16 * batchSize
//@   lemma before call Expand#3 : len(opts.Context) == 0 ==> le(hash[0:64]) % L == hchal(variant(*opts), bnil(), 0, bytesOf(sigs[i+offset][0:32]), bytesOf(publicKeys[i+offset][0:32]), bytesOf(messages[i+offset]))
//@   lemma before call Expand#3 : len(opts.Context) > 0 ==> le(hash[0:64]) % L == hchal(variant(*opts), bytesOf(opts.Context), len(opts.Context), bytesOf(sigs[i+offset][0:32]), bytesOf(publicKeys[i+offset][0:32]), bytesOf(messages[i+offset]))
//@   lemma before call multiScalarmultVartime#1 : forallq(k, 0, batchSize, vpre(publicKeys[k+offset], messages[k+offset], sigs[k+offset], *opts))
//@   loop#8 modifies i, ret, valid[0:len(valid)]
//@   loop#8 invariant g1(publicKeys, messages, sigs, *opts, valid) && g2(valid, ret, len(publicKeys)) && 0 <= i && i <= batchSize
//@   loop#9 modifies i, ret, valid[0:len(valid)]
//@   loop#9 invariant g1(publicKeys, messages, sigs, *opts, valid) && g2(valid, ret, len(publicKeys)) && 0 <= i && i <= num
//@   ensures len(opts.Context) > 255 ==> (result0 == false && result1 == nil && result2 != nil)
//@   ensures result2 == nil ==> (len(result1) == len(publicKeys) && fresh(result1))
//@   ensures result2 == nil ==> g1(publicKeys, messages, sigs, *opts, result1)
//@   ensures result2 == nil ==> (result0 == forall(k, 0, len(publicKeys), result1[k]))

// ---------------- C03: what the library signs, it accepts ----------------
// verifRoundTrip (verif_hooks.go, build tag verif) is "derive the key, sign, verify"; its contract
// is checked against the CONTRACTS of NewKeyFromSeed, sign and verify. The mathematical facts used:
//   RTDEC   encoding round trip: enc(X) decodes, to X                                    [B11]
//   RTMODL  [x]B depends on x mod L only; RTNEUT [x]B = O iff L | x  (B has order L)      [M4]
//   RTLC/RTSUB/GDBL  arithmetic of multiples of B                                         [M2]
//   RTCLAMP a clamped scalar (2^254 <= a < 2^255, 8 | a) is not a multiple of L mod cofactor: L does not divide 8a   [arithmetic: 8a = kL forces 64 | k, but k < 64]
//   RTCOP   L | 8x implies L | x (L is odd)                                               [arithmetic]
//@ axiom RTDEC [B11]: allS(X, Pt, decodable(encpt(X)) && decpt(encpt(X)) == X)
//@ axiom RTMODL [M4]: all(x, mulB(x) == mulB(x % L))
//@ axiom RTNEUT [M4]: all(x, isneutral(mulB(x)) == (x % L == 0))
//@ axiom RTLC [M2]: all(a, all(h, all(s, lc2(pneg(mulB(a)), h, s) == mulB(s - h * a))))
//@ axiom RTSUB [M2]: all(x, all(y, psub(mulB(x), mulB(y)) == mulB(x - y)))
//@ axiom RTCLAMP [M4]: all(a, ((1<<254) <= a && a < (1<<255) && a % 8 == 0) ==> (8 * a) % L != 0)
//@ axiom RTCOP [M4]: all(x, (8 * x) % L == 0 ==> x % L == 0)
//@ func verifRoundTrip(seed, message, f, c, zip215)
//@   hook
//@   uses RTDEC, RTMODL, RTNEUT, RTLC, RTSUB, RTCLAMP, RTCOP, GDBL
//@   requires len(seed) == 32 && (f == fPure || len(c) <= 255)
//@   requires nonce(seed, f, bytesOf(c), len(c), bytesOf(message)) != 0
//@   modifies nothing
//@   lemma after call NewKeyFromSeed#1 : sec_a(priv) == sec_a(seed) && nonce(priv, f, bytesOf(c), len(c), bytesOf(message)) == nonce(seed, f, bytesOf(c), len(c), bytesOf(message))
//@   lemma after call NewKeyFromSeed#1 : (1<<254) <= sec_a(priv) && sec_a(priv) < (1<<255) && sec_a(priv) % 8 == 0
//@   lemma after call NewKeyFromSeed#1 : decodable(bytesOf(priv[32:64])) && decpt(bytesOf(priv[32:64])) == mulB(sec_a(priv))
//@   lemma after call NewKeyFromSeed#1 : !small(bytesOf(priv[32:64]))
//@   lemma after call sign#1 : decodable(bytesOf(sig[0:32])) && decpt(bytesOf(sig[0:32])) == mulB(nonce(priv, f, bytesOf(c), len(c), bytesOf(message)))
//@   lemma after call sign#1 : !small(bytesOf(sig[0:32]))
// the instance of RTLC (a multiple of -A plus a multiple of B) for this key, challenge and S, stated explicitly
//@   lemma after call sign#1 : true ;; assume lc2(pneg(mulB(sec_a(priv))), hchal(f, bytesOf(c), len(c), bytesOf(sig[0:32]), bytesOf(priv[32:64]), bytesOf(message)), le(sig[32:64])) == mulB(le(sig[32:64]) - hchal(f, bytesOf(c), len(c), bytesOf(sig[0:32]), bytesOf(priv[32:64]), bytesOf(message)) * sec_a(priv))
//@   lemma after call sign#1 : lc2(pneg(decpt(bytesOf(priv[32:64]))), hchal(f, bytesOf(c), len(c), bytesOf(sig[0:32]), bytesOf(priv[32:64]), bytesOf(message)), le(sig[32:64])) == mulB(le(sig[32:64]) - hchal(f, bytesOf(c), len(c), bytesOf(sig[0:32]), bytesOf(priv[32:64]), bytesOf(message)) * sec_a(priv))
//@   lemma after call sign#1 : psub(lc2(pneg(decpt(bytesOf(priv[32:64]))), hchal(f, bytesOf(c), len(c), bytesOf(sig[0:32]), bytesOf(priv[32:64]), bytesOf(message)), le(sig[32:64])), decpt(bytesOf(sig[0:32]))) == mulB(le(sig[32:64]) - hchal(f, bytesOf(c), len(c), bytesOf(sig[0:32]), bytesOf(priv[32:64]), bytesOf(message)) * sec_a(priv) - nonce(priv, f, bytesOf(c), len(c), bytesOf(message)))
//@   lemma after call sign#1 : smul8(psub(lc2(pneg(decpt(bytesOf(priv[32:64]))), hchal(f, bytesOf(c), len(c), bytesOf(sig[0:32]), bytesOf(priv[32:64]), bytesOf(message)), le(sig[32:64])), decpt(bytesOf(sig[0:32])))) == mulB(8 * (le(sig[32:64]) - hchal(f, bytesOf(c), len(c), bytesOf(sig[0:32]), bytesOf(priv[32:64]), bytesOf(message)) * sec_a(priv) - nonce(priv, f, bytesOf(c), len(c), bytesOf(message))))
//@   lemma after call sign#1 : (8 * (le(sig[32:64]) - hchal(f, bytesOf(c), len(c), bytesOf(sig[0:32]), bytesOf(priv[32:64]), bytesOf(message)) * sec_a(priv) - nonce(priv, f, bytesOf(c), len(c), bytesOf(message)))) % L == 0
//@   lemma after call sign#1 : isneutral(smul8(psub(lc2(pneg(decpt(bytesOf(priv[32:64]))), hchal(f, bytesOf(c), len(c), bytesOf(sig[0:32]), bytesOf(priv[32:64]), bytesOf(message)), le(sig[32:64])), decpt(bytesOf(sig[0:32])))))
//@   ensures result == true
