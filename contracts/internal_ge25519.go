//go:build verif

// Contracts for package ge25519 (group operations on the twisted Edwards curve
// -x^2 + y^2 = 1 + d x^2 y^2 over GF(2^255-19)).
// Comment-only file; the //@ lines are read by /verif/govc.
//
// Two levels:
//  * field level (proved of the code): every output coordinate is congruent mod P
//    to a stated polynomial of the input coordinates, every field-operation call
//    site respects the callee's magnitude precondition, outputs lie in stated
//    magnitude classes, and t*z == x*y ("tvalid") where a full point is produced;
//  * group level: for the leaf formula functions the statement "these polynomials
//    implement the group law" is an ASSUMED postcondition (assume-ensures, bridge
//    lemmas B1..B12 of DESIGN.md); for composite functions the group-level
//    postcondition is proved from the callees' contracts.

package ge25519

//@ config any
//@ const D = 37095705934669439343138083508754565189542113879843219016388785533085940283555
//@ const D2 = (2 * D) % P
//@ const SQRTM1 = 19681161376707505956807079304988542015446066515923890162744021073123829784752
//@ usort Pt
//@ ufun pt3(Int, Int, Int) Pt
//@ ufun pt11(Int, Int, Int, Int) Pt
//@ ufun ptN(Int, Int, Int) Pt
//@ ufun ptPN(Int, Int, Int, Int) Pt
//@ ufun padd(Pt, Pt) Pt
//@ ufun psub(Pt, Pt) Pt
//@ ufun pneg(Pt) Pt
//@ ufun pdbl(Pt) Pt
//@ ufun mulB(Int) Pt
//@ ufun lc2(Pt, Int, Int) Pt
//@ ufun isneutral(Pt) Bool
//@ spec fe(x) = fval(x) % P
//@ spec P3(g) = pt3(fe(g.x), fe(g.y), fe(g.z))
//@ spec P11(g) = pt11(fe(g.x), fe(g.y), fe(g.z), fe(g.t))
//@ spec PN(g) = ptN(fe(g.ysubx), fe(g.xaddy), fe(g.t2d))
//@ spec PPN(g) = ptPN(fe(g.ysubx), fe(g.xaddy), fe(g.z), fe(g.t2d))
//@ spec smul8(X) = pdbl(pdbl(pdbl(X)))
//@ spec tvalid(g) = cong(fval(g.t) * fval(g.z), fval(g.x) * fval(g.y), P)
//@ spec red3(g) = mag(g.x, RED) && mag(g.y, RED) && mag(g.z, RED)
//@ spec red4(g) = mag(g.x, RED) && mag(g.y, RED) && mag(g.z, RED) && mag(g.t, RED)
//@ spec mulok4(g) = mulok(g.x) && mulok(g.y) && mulok(g.z) && mulok(g.t)
//@ spec rednb(g) = mag(g.ysubx, RED) && mag(g.xaddy, RED) && mag(g.t2d, RED)
//@ spec okpn(g) = mag(g.ysubx, SUB1) && mag(g.xaddy, ADD1) && mag(g.z, RED) && mag(g.t2d, RED)
//@ spec X(g) = fval(g.x)
//@ spec Y(g) = fval(g.y)
//@ spec Z(g) = fval(g.z)
//@ spec T(g) = fval(g.t)

// ---------------- conversions ----------------

//@ func p1p1ToPartial(r, p)
//@   ct
//@   requires mulok4(*p)
//@   modifies r.x, r.y, r.z
//@   ensures red3(*r)
//@   ensures cong(X(*r), X(*p) * T(*p), P) && cong(Y(*r), Y(*p) * Z(*p), P) && cong(Z(*r), Z(*p) * T(*p), P)
//@   assume-ensures P3(*r) == P11(*p)

//@ func p1p1ToFull(r, p)
//@   ct
//@   requires mulok4(*p)
//@   modifies *r
//@   ensures red4(*r) && tvalid(*r)
//@   ensures cong(X(*r), X(*p) * T(*p), P) && cong(Y(*r), Y(*p) * Z(*p), P) && cong(Z(*r), Z(*p) * T(*p), P) && cong(T(*r), X(*p) * Y(*p), P)
//@   assume-ensures P3(*r) == P11(*p)

//@ func fullToPniels(r, p)
//@   requires red4(*p) && tvalid(*p)
//@   modifies *r
//@   ensures okpn(*r)
//@   ensures cong(fval(r.ysubx), Y(*p) - X(*p), P) && cong(fval(r.xaddy), Y(*p) + X(*p), P) && r.z == p.z && cong(fval(r.t2d), T(*p) * D2, P)
//@   assume-ensures PPN(*r) == P3(*p)

// ---------------- adding & doubling ----------------

//@ func addP1p1(r, p, q)
//@   alias p==q
//@   requires red4(*p) && tvalid(*p) && red4(*q) && tvalid(*q)
//@   modifies *r
//@   ensures mag(r.x, SUB1) && mag(r.y, ADD1) && mag(r.z, AB) && mag(r.t, AB)
//@   ensures cong(X(*r), (Y(*p) + X(*p)) * (Y(*q) + X(*q)) - (Y(*p) - X(*p)) * (Y(*q) - X(*q)), P)
//@   ensures cong(Y(*r), (Y(*p) + X(*p)) * (Y(*q) + X(*q)) + (Y(*p) - X(*p)) * (Y(*q) - X(*q)), P)
//@   ensures cong(Z(*r), 2 * Z(*p) * Z(*q) + T(*p) * T(*q) * D2, P)
//@   ensures cong(T(*r), 2 * Z(*p) * Z(*q) - T(*p) * T(*q) * D2, P)
//@   assume-ensures P11(*r) == padd(P3(*p), P3(*q))

//@ func doubleP1p1(r, p)
//@   ct
//@   requires red3(*p)
//@   modifies *r
//@   ensures mag(r.x, AB) && mag(r.y, ADD1) && mag(r.z, SUB1) && mag(r.t, AB)
//@   ensures cong(X(*r), 2 * X(*p) * Y(*p), P)
//@   ensures cong(Y(*r), Y(*p) * Y(*p) + X(*p) * X(*p), P)
//@   ensures cong(Z(*r), Y(*p) * Y(*p) - X(*p) * X(*p), P)
//@   ensures cong(T(*r), 2 * Z(*p) * Z(*p) - Y(*p) * Y(*p) + X(*p) * X(*p), P)
//@   assume-ensures P11(*r) == pdbl(P3(*p))

//@ func nielsAdd2P1p1Vartime(r, p, q, signbit)
//@   requires red4(*p) && tvalid(*p) && rednb(*q) && (signbit == 0 || signbit == 1)
//@   modifies *r
//@   ensures mulok4(*r)
//@   ensures signbit == 0 ==> cong(X(*r), (Y(*p) + X(*p)) * fval(q.xaddy) - (Y(*p) - X(*p)) * fval(q.ysubx), P)
//@   ensures signbit == 0 ==> cong(Y(*r), (Y(*p) + X(*p)) * fval(q.xaddy) + (Y(*p) - X(*p)) * fval(q.ysubx), P)
//@   ensures signbit == 0 ==> cong(Z(*r), 2 * Z(*p) + T(*p) * fval(q.t2d), P)
//@   ensures signbit == 0 ==> cong(T(*r), 2 * Z(*p) - T(*p) * fval(q.t2d), P)
//@   ensures signbit != 0 ==> cong(X(*r), (Y(*p) + X(*p)) * fval(q.ysubx) - (Y(*p) - X(*p)) * fval(q.xaddy), P)
//@   ensures signbit != 0 ==> cong(Y(*r), (Y(*p) + X(*p)) * fval(q.ysubx) + (Y(*p) - X(*p)) * fval(q.xaddy), P)
//@   ensures signbit != 0 ==> cong(Z(*r), 2 * Z(*p) - T(*p) * fval(q.t2d), P)
//@   ensures signbit != 0 ==> cong(T(*r), 2 * Z(*p) + T(*p) * fval(q.t2d), P)
//@   assume-ensures signbit == 0 ==> P11(*r) == padd(P3(*p), PN(*q))
//@   assume-ensures signbit != 0 ==> P11(*r) == psub(P3(*p), PN(*q))

//@ func pnielsAddP1P1Vartime(r, p, q, signbit)
//@   requires red4(*p) && tvalid(*p) && okpn(*q) && (signbit == 0 || signbit == 1)
//@   modifies *r
//@   ensures mulok4(*r)
//@   ensures signbit == 0 ==> cong(X(*r), (Y(*p) + X(*p)) * fval(q.xaddy) - (Y(*p) - X(*p)) * fval(q.ysubx), P)
//@   ensures signbit == 0 ==> cong(Y(*r), (Y(*p) + X(*p)) * fval(q.xaddy) + (Y(*p) - X(*p)) * fval(q.ysubx), P)
//@   ensures signbit == 0 ==> cong(Z(*r), 2 * Z(*p) * fval(q.z) + T(*p) * fval(q.t2d), P)
//@   ensures signbit == 0 ==> cong(T(*r), 2 * Z(*p) * fval(q.z) - T(*p) * fval(q.t2d), P)
//@   ensures signbit != 0 ==> cong(X(*r), (Y(*p) + X(*p)) * fval(q.ysubx) - (Y(*p) - X(*p)) * fval(q.xaddy), P)
//@   ensures signbit != 0 ==> cong(Y(*r), (Y(*p) + X(*p)) * fval(q.ysubx) + (Y(*p) - X(*p)) * fval(q.xaddy), P)
//@   ensures signbit != 0 ==> cong(Z(*r), 2 * Z(*p) * fval(q.z) - T(*p) * fval(q.t2d), P)
//@   ensures signbit != 0 ==> cong(T(*r), 2 * Z(*p) * fval(q.z) + T(*p) * fval(q.t2d), P)
//@   assume-ensures signbit == 0 ==> P11(*r) == padd(P3(*p), PPN(*q))
//@   assume-ensures signbit != 0 ==> P11(*r) == psub(P3(*p), PPN(*q))

//@ func doublePartial(r, p)
//@   ct
//@   alias r==p
//@   requires red3(*p)
//@   modifies r.x, r.y, r.z
//@   ensures red3(*r)
//@   ensures P3(*r) == pdbl(P3(old(*p)))

//@ func Double(r, p)
//@   ct
//@   alias r==p
//@   requires red3(*p)
//@   modifies *r
//@   ensures red4(*r) && tvalid(*r)
//@   ensures P3(*r) == pdbl(P3(old(*p)))

//@ func Add(r, p, q)
//@   alias r==p | p==q | r==p==q
//@   requires red4(*p) && tvalid(*p) && red4(*q) && tvalid(*q)
//@   modifies *r
//@   ensures red4(*r) && tvalid(*r)
//@   ensures P3(*r) == padd(P3(old(*p)), P3(old(*q)))

//@ func nielsAdd2(r, q)
//@   ct
//@   requires red4(*r) && tvalid(*r) && rednb(*q)
//@   modifies *r
//@   ensures red4(*r) && tvalid(*r)
//@   ensures cong(X(*r), ((Y(old(*r)) + X(old(*r))) * fval(q.xaddy) - (Y(old(*r)) - X(old(*r))) * fval(q.ysubx)) * (2 * Z(old(*r)) - T(old(*r)) * fval(q.t2d)), P)
//@   ensures cong(Y(*r), ((Y(old(*r)) + X(old(*r))) * fval(q.xaddy) + (Y(old(*r)) - X(old(*r))) * fval(q.ysubx)) * (2 * Z(old(*r)) + T(old(*r)) * fval(q.t2d)), P)
//@   ensures cong(Z(*r), (2 * Z(old(*r)) + T(old(*r)) * fval(q.t2d)) * (2 * Z(old(*r)) - T(old(*r)) * fval(q.t2d)), P)
//@   assume-ensures P3(*r) == padd(P3(old(*r)), PN(*q))

//@ func pnielsAdd(r, p, q)
//@   alias r==q
//@   requires red4(*p) && tvalid(*p) && okpn(*q)
//@   modifies *r
//@   ensures okpn(*r)
//@   assume-ensures PPN(*r) == padd(P3(*p), PPN(old(*q)))

// ---------------- cofactor_equal.go ----------------

//@ func geSub(r, p, q)
//@   requires red4(*p) && tvalid(*p) && okpn(*q)
//@   modifies *r
//@   ensures mulok4(*r)
//@   ensures cong(X(*r), (Y(*p) + X(*p)) * fval(q.ysubx) - (Y(*p) - X(*p)) * fval(q.xaddy), P)
//@   ensures cong(Y(*r), (Y(*p) + X(*p)) * fval(q.ysubx) + (Y(*p) - X(*p)) * fval(q.xaddy), P)
//@   ensures cong(Z(*r), 2 * Z(*p) * fval(q.z) - fval(q.t2d) * T(*p), P)
//@   ensures cong(T(*r), 2 * Z(*p) * fval(q.z) + fval(q.t2d) * T(*p), P)
//@   assume-ensures P11(*r) == psub(P3(*p), PPN(*q))

//@ func ProjectiveToExtended(r, p)
//@   requires red3(*p)
//@   modifies *r
//@   ensures red4(*r) && tvalid(*r)
//@   ensures cong(X(*r), X(*p) * Z(*p), P) && cong(Y(*r), Y(*p) * Z(*p), P) && cong(Z(*r), Z(*p) * Z(*p), P) && cong(T(*r), X(*p) * Y(*p), P)
//@   assume-ensures P3(*r) == P3(*p)

//@ func CofactorMultiply(r, p)
//@   alias r==p
//@   requires red3(*p)
//@   modifies *r
//@   ensures red4(*r) && tvalid(*r)
//@   ensures P3(*r) == smul8(P3(old(*p)))

//@ func IsNeutralVartime(q)
//@   requires red3(*q)
//@   modifies nothing
//@   ensures result == (fe(q.x) == 0 && fe(q.y) == fe(q.z))
//@   assume-ensures result == isneutral(P3(*q))

//@ func CofactorEqual(p, q)
//@   alias p==q
//@   requires red4(*p) && tvalid(*p) && red4(*q) && tvalid(*q)
//@   modifies nothing
//@   ensures result == isneutral(smul8(psub(P3(*p), P3(*q))))

// ---------------- pack & unpack ----------------

//@ ufun encpt(Pt) Bytes
//@ ufun decpt(Bytes) Pt
//@ ufun decodable(Bytes) Bool

//@ func Pack(r, p)
//@   ct
//@   requires len(r) >= 32 && red3(*p)
//@   modifies r[0:32]
//@   cut before call Contract#1 havoc : mag(tx, RED) && mag(ty, RED) && feq(fval(tx), X(*p) * pow(Z(*p), P - 2), P) && feq(fval(ty), Y(*p) * pow(Z(*p), P - 2), P)
//@   ensures le(r[0:32]) == (Y(*p) * pow(Z(*p), P - 2)) % P + (((X(*p) * pow(Z(*p), P - 2)) % P) % 2) << 255
//@   assume-ensures bytesOf(r[0:32]) == encpt(P3(*p))

//@ spec UU(y) = pow(y, 2) - 1
//@ spec VV(y) = D * pow(y, 2) + 1

//@ func UnpackNegativeVartime(r, p)
//@   requires len(p) >= 32
//@   modifies *r
//@   ensures result ==> (mag(r.x, RED) && mag(r.y, CANON) && isone(r.z) && mag(r.t, RED) && tvalid(*r))
//@   ensures result ==> fval(r.y) == le(p[0:32]) % (1<<255)
//@   ensures result ==> cong(VV(fval(r.y)) * pow(X(*r), 2), UU(fval(r.y)), P)
//@   ensures result ==> (fe(r.x) == 0 || fe(r.x) % 2 != p[31] >> 7)
//@   ensures !result ==> (red3(*r) && r.t == old(r.t))
//@   lemma after call Neg#1 : fe(r.x) == (P - fe(t)) % P
//@   assume-ensures result == decodable(bytesOf(p[0:32]))
//@   assume-ensures result ==> P3(*r) == pneg(decpt(bytesOf(p[0:32])))

//@ func UnpackVartime(r, p)
//@   requires len(p) >= 32
//@   modifies *r
//@   ensures result ==> (mag(r.x, RED) && mag(r.y, CANON) && isone(r.z) && mag(r.t, RED) && tvalid(*r))
//@   ensures result ==> fval(r.y) == le(p[0:32]) % (1<<255)
//@   ensures result ==> cong(VV(fval(r.y)) * pow(X(*r), 2), UU(fval(r.y)), P)
//@   ensures result ==> (fe(r.x) == 0 || fe(r.x) % 2 == p[31] >> 7)
//@   assume-ensures result == decodable(bytesOf(p[0:32]))
//@   assume-ensures result ==> P3(*r) == decpt(bytesOf(p[0:32]))

// accessors (secrecy clause only; executed from their bodies in the functional proofs)
//@ func (*Ge25519).X(r)
//@   ct-only
//@   ct
//@ func (*Ge25519).Y(r)
//@   ct-only
//@   ct
//@ func (*Ge25519).Z(r)
//@   ct-only
//@   ct

// ---------------- conditional move, table lookup ----------------

//@ config movecond_unsafe
//@ func moveConditionalBytes(out, in, flag)
//@   ct
//@   havoc-global unalignedOk
//@   cases flag == 0 | flag == 1
//@   modifies *out
//@   ensures flag == 1 ==> *out == old(*in)
//@   ensures flag == 0 ==> *out == old(*out)

//@ func moveConditionalBytes64(outp, inp, flag)
//@   ct-only
//@   ct
//@ func moveConditionalBytes32(outp, inp, flag)
//@   ct-only
//@   ct

//@ config !movecond_unsafe
//@ func moveConditionalBytes(out, in, flag)
//@   ct
//@   cases flag == 0 | flag == 1
//@   modifies *out
//@   ensures flag == 1 ==> *out == old(*in)
//@   ensures flag == 0 ==> *out == old(*out)
//@ config any

//@ ufun ptN0(Int, Int, Int) Pt
//@ spec PN0(g) = ptN0(fe(g.ysubx), fe(g.xaddy), fe(g.t2d))
// validity of a niels triple (y-x, y+x, 2xy) resp. (y-x, y+x, 2dxy): (y+x)^2 - (y-x)^2 = 4xy
//@ spec nvalid0(g) = cong(2 * fval(g.t2d), fval(g.xaddy) * fval(g.xaddy) - fval(g.ysubx) * fval(g.ysubx), P)
//@ spec nvalid(g) = cong(2 * fval(g.t2d), D * (fval(g.xaddy) * fval(g.xaddy) - fval(g.ysubx) * fval(g.ysubx)), P)
// negation of a niels point: swap y-x and y+x, negate the t component  [bridge B12, part of M2]
//@ axiom NEGN [M2]: all(a, all(b, all(c, all(k, ptN(a, b, c) == mulB(k) ==> ptN(b, a, (P - c) % P) == mulB(0 - k)))))
//@ axiom NEGN0 [M2]: all(a, all(b, all(c, all(k, ptN0(a, b, c) == mulB(k) ==> ptN0(b, a, (P - c) % P) == mulB(0 - k)))))

// Table lookup. NielsBaseMultiples[8*pos+j] is (j+1)*256^pos*B in packed form (y-x, y+x, 2xy) for
// pos = 0 and (y-x, y+x, 2dxy) for pos > 0; these 256 facts are validated by the ground back end.
//@ config !asm
//@ func windowbEqual(b, c)
//@   ct-only
//@   ct
//@ func scalarmultBaseChooseNiels(t, table, pos, b)
//@   ct public pos
//@   bind table = &NielsBaseMultiples
//@   inline Expand, SwapConditional, Neg, moveConditionalBytes, windowbEqual
//@   cases pos == 0 && b == -8 | pos == 0 && b == -7 | pos == 0 && b == -6 | pos == 0 && b == -5 | pos == 0 && b == -4 | pos == 0 && b == -3 | pos == 0 && b == -2 | pos == 0 && b == -1 | pos == 0 && b == 0 | pos == 0 && b == 1 | pos == 0 && b == 2 | pos == 0 && b == 3 | pos == 0 && b == 4 | pos == 0 && b == 5 | pos == 0 && b == 6 | pos == 0 && b == 7 | pos == 0 && b == 8 | pos == 1 && b == -8 | pos == 1 && b == -7 | pos == 1 && b == -6 | pos == 1 && b == -5 | pos == 1 && b == -4 | pos == 1 && b == -3 | pos == 1 && b == -2 | pos == 1 && b == -1 | pos == 1 && b == 0 | pos == 1 && b == 1 | pos == 1 && b == 2 | pos == 1 && b == 3 | pos == 1 && b == 4 | pos == 1 && b == 5 | pos == 1 && b == 6 | pos == 1 && b == 7 | pos == 1 && b == 8 | pos == 2 && b == -8 | pos == 2 && b == -7 | pos == 2 && b == -6 | pos == 2 && b == -5 | pos == 2 && b == -4 | pos == 2 && b == -3 | pos == 2 && b == -2 | pos == 2 && b == -1 | pos == 2 && b == 0 | pos == 2 && b == 1 | pos == 2 && b == 2 | pos == 2 && b == 3 | pos == 2 && b == 4 | pos == 2 && b == 5 | pos == 2 && b == 6 | pos == 2 && b == 7 | pos == 2 && b == 8 | pos == 3 && b == -8 | pos == 3 && b == -7 | pos == 3 && b == -6 | pos == 3 && b == -5 | pos == 3 && b == -4 | pos == 3 && b == -3 | pos == 3 && b == -2 | pos == 3 && b == -1 | pos == 3 && b == 0 | pos == 3 && b == 1 | pos == 3 && b == 2 | pos == 3 && b == 3 | pos == 3 && b == 4 | pos == 3 && b == 5 | pos == 3 && b == 6 | pos == 3 && b == 7 | pos == 3 && b == 8 | pos == 4 && b == -8 | pos == 4 && b == -7 | pos == 4 && b == -6 | pos == 4 && b == -5 | pos == 4 && b == -4 | pos == 4 && b == -3 | pos == 4 && b == -2 | pos == 4 && b == -1 | pos == 4 && b == 0 | pos == 4 && b == 1 | pos == 4 && b == 2 | pos == 4 && b == 3 | pos == 4 && b == 4 | pos == 4 && b == 5 | pos == 4 && b == 6 | pos == 4 && b == 7 | pos == 4 && b == 8 | pos == 5 && b == -8 | pos == 5 && b == -7 | pos == 5 && b == -6 | pos == 5 && b == -5 | pos == 5 && b == -4 | pos == 5 && b == -3 | pos == 5 && b == -2 | pos == 5 && b == -1 | pos == 5 && b == 0 | pos == 5 && b == 1 | pos == 5 && b == 2 | pos == 5 && b == 3 | pos == 5 && b == 4 | pos == 5 && b == 5 | pos == 5 && b == 6 | pos == 5 && b == 7 | pos == 5 && b == 8 | pos == 6 && b == -8 | pos == 6 && b == -7 | pos == 6 && b == -6 | pos == 6 && b == -5 | pos == 6 && b == -4 | pos == 6 && b == -3 | pos == 6 && b == -2 | pos == 6 && b == -1 | pos == 6 && b == 0 | pos == 6 && b == 1 | pos == 6 && b == 2 | pos == 6 && b == 3 | pos == 6 && b == 4 | pos == 6 && b == 5 | pos == 6 && b == 6 | pos == 6 && b == 7 | pos == 6 && b == 8 | pos == 7 && b == -8 | pos == 7 && b == -7 | pos == 7 && b == -6 | pos == 7 && b == -5 | pos == 7 && b == -4 | pos == 7 && b == -3 | pos == 7 && b == -2 | pos == 7 && b == -1 | pos == 7 && b == 0 | pos == 7 && b == 1 | pos == 7 && b == 2 | pos == 7 && b == 3 | pos == 7 && b == 4 | pos == 7 && b == 5 | pos == 7 && b == 6 | pos == 7 && b == 7 | pos == 7 && b == 8 | pos == 8 && b == -8 | pos == 8 && b == -7 | pos == 8 && b == -6 | pos == 8 && b == -5 | pos == 8 && b == -4 | pos == 8 && b == -3 | pos == 8 && b == -2 | pos == 8 && b == -1 | pos == 8 && b == 0 | pos == 8 && b == 1 | pos == 8 && b == 2 | pos == 8 && b == 3 | pos == 8 && b == 4 | pos == 8 && b == 5 | pos == 8 && b == 6 | pos == 8 && b == 7 | pos == 8 && b == 8 | pos == 9 && b == -8 | pos == 9 && b == -7 | pos == 9 && b == -6 | pos == 9 && b == -5 | pos == 9 && b == -4 | pos == 9 && b == -3 | pos == 9 && b == -2 | pos == 9 && b == -1 | pos == 9 && b == 0 | pos == 9 && b == 1 | pos == 9 && b == 2 | pos == 9 && b == 3 | pos == 9 && b == 4 | pos == 9 && b == 5 | pos == 9 && b == 6 | pos == 9 && b == 7 | pos == 9 && b == 8 | pos == 10 && b == -8 | pos == 10 && b == -7 | pos == 10 && b == -6 | pos == 10 && b == -5 | pos == 10 && b == -4 | pos == 10 && b == -3 | pos == 10 && b == -2 | pos == 10 && b == -1 | pos == 10 && b == 0 | pos == 10 && b == 1 | pos == 10 && b == 2 | pos == 10 && b == 3 | pos == 10 && b == 4 | pos == 10 && b == 5 | pos == 10 && b == 6 | pos == 10 && b == 7 | pos == 10 && b == 8 | pos == 11 && b == -8 | pos == 11 && b == -7 | pos == 11 && b == -6 | pos == 11 && b == -5 | pos == 11 && b == -4 | pos == 11 && b == -3 | pos == 11 && b == -2 | pos == 11 && b == -1 | pos == 11 && b == 0 | pos == 11 && b == 1 | pos == 11 && b == 2 | pos == 11 && b == 3 | pos == 11 && b == 4 | pos == 11 && b == 5 | pos == 11 && b == 6 | pos == 11 && b == 7 | pos == 11 && b == 8 | pos == 12 && b == -8 | pos == 12 && b == -7 | pos == 12 && b == -6 | pos == 12 && b == -5 | pos == 12 && b == -4 | pos == 12 && b == -3 | pos == 12 && b == -2 | pos == 12 && b == -1 | pos == 12 && b == 0 | pos == 12 && b == 1 | pos == 12 && b == 2 | pos == 12 && b == 3 | pos == 12 && b == 4 | pos == 12 && b == 5 | pos == 12 && b == 6 | pos == 12 && b == 7 | pos == 12 && b == 8 | pos == 13 && b == -8 | pos == 13 && b == -7 | pos == 13 && b == -6 | pos == 13 && b == -5 | pos == 13 && b == -4 | pos == 13 && b == -3 | pos == 13 && b == -2 | pos == 13 && b == -1 | pos == 13 && b == 0 | pos == 13 && b == 1 | pos == 13 && b == 2 | pos == 13 && b == 3 | pos == 13 && b == 4 | pos == 13 && b == 5 | pos == 13 && b == 6 | pos == 13 && b == 7 | pos == 13 && b == 8 | pos == 14 && b == -8 | pos == 14 && b == -7 | pos == 14 && b == -6 | pos == 14 && b == -5 | pos == 14 && b == -4 | pos == 14 && b == -3 | pos == 14 && b == -2 | pos == 14 && b == -1 | pos == 14 && b == 0 | pos == 14 && b == 1 | pos == 14 && b == 2 | pos == 14 && b == 3 | pos == 14 && b == 4 | pos == 14 && b == 5 | pos == 14 && b == 6 | pos == 14 && b == 7 | pos == 14 && b == 8 | pos == 15 && b == -8 | pos == 15 && b == -7 | pos == 15 && b == -6 | pos == 15 && b == -5 | pos == 15 && b == -4 | pos == 15 && b == -3 | pos == 15 && b == -2 | pos == 15 && b == -1 | pos == 15 && b == 0 | pos == 15 && b == 1 | pos == 15 && b == 2 | pos == 15 && b == 3 | pos == 15 && b == 4 | pos == 15 && b == 5 | pos == 15 && b == 6 | pos == 15 && b == 7 | pos == 15 && b == 8 | pos == 16 && b == -8 | pos == 16 && b == -7 | pos == 16 && b == -6 | pos == 16 && b == -5 | pos == 16 && b == -4 | pos == 16 && b == -3 | pos == 16 && b == -2 | pos == 16 && b == -1 | pos == 16 && b == 0 | pos == 16 && b == 1 | pos == 16 && b == 2 | pos == 16 && b == 3 | pos == 16 && b == 4 | pos == 16 && b == 5 | pos == 16 && b == 6 | pos == 16 && b == 7 | pos == 16 && b == 8 | pos == 17 && b == -8 | pos == 17 && b == -7 | pos == 17 && b == -6 | pos == 17 && b == -5 | pos == 17 && b == -4 | pos == 17 && b == -3 | pos == 17 && b == -2 | pos == 17 && b == -1 | pos == 17 && b == 0 | pos == 17 && b == 1 | pos == 17 && b == 2 | pos == 17 && b == 3 | pos == 17 && b == 4 | pos == 17 && b == 5 | pos == 17 && b == 6 | pos == 17 && b == 7 | pos == 17 && b == 8 | pos == 18 && b == -8 | pos == 18 && b == -7 | pos == 18 && b == -6 | pos == 18 && b == -5 | pos == 18 && b == -4 | pos == 18 && b == -3 | pos == 18 && b == -2 | pos == 18 && b == -1 | pos == 18 && b == 0 | pos == 18 && b == 1 | pos == 18 && b == 2 | pos == 18 && b == 3 | pos == 18 && b == 4 | pos == 18 && b == 5 | pos == 18 && b == 6 | pos == 18 && b == 7 | pos == 18 && b == 8 | pos == 19 && b == -8 | pos == 19 && b == -7 | pos == 19 && b == -6 | pos == 19 && b == -5 | pos == 19 && b == -4 | pos == 19 && b == -3 | pos == 19 && b == -2 | pos == 19 && b == -1 | pos == 19 && b == 0 | pos == 19 && b == 1 | pos == 19 && b == 2 | pos == 19 && b == 3 | pos == 19 && b == 4 | pos == 19 && b == 5 | pos == 19 && b == 6 | pos == 19 && b == 7 | pos == 19 && b == 8 | pos == 20 && b == -8 | pos == 20 && b == -7 | pos == 20 && b == -6 | pos == 20 && b == -5 | pos == 20 && b == -4 | pos == 20 && b == -3 | pos == 20 && b == -2 | pos == 20 && b == -1 | pos == 20 && b == 0 | pos == 20 && b == 1 | pos == 20 && b == 2 | pos == 20 && b == 3 | pos == 20 && b == 4 | pos == 20 && b == 5 | pos == 20 && b == 6 | pos == 20 && b == 7 | pos == 20 && b == 8 | pos == 21 && b == -8 | pos == 21 && b == -7 | pos == 21 && b == -6 | pos == 21 && b == -5 | pos == 21 && b == -4 | pos == 21 && b == -3 | pos == 21 && b == -2 | pos == 21 && b == -1 | pos == 21 && b == 0 | pos == 21 && b == 1 | pos == 21 && b == 2 | pos == 21 && b == 3 | pos == 21 && b == 4 | pos == 21 && b == 5 | pos == 21 && b == 6 | pos == 21 && b == 7 | pos == 21 && b == 8 | pos == 22 && b == -8 | pos == 22 && b == -7 | pos == 22 && b == -6 | pos == 22 && b == -5 | pos == 22 && b == -4 | pos == 22 && b == -3 | pos == 22 && b == -2 | pos == 22 && b == -1 | pos == 22 && b == 0 | pos == 22 && b == 1 | pos == 22 && b == 2 | pos == 22 && b == 3 | pos == 22 && b == 4 | pos == 22 && b == 5 | pos == 22 && b == 6 | pos == 22 && b == 7 | pos == 22 && b == 8 | pos == 23 && b == -8 | pos == 23 && b == -7 | pos == 23 && b == -6 | pos == 23 && b == -5 | pos == 23 && b == -4 | pos == 23 && b == -3 | pos == 23 && b == -2 | pos == 23 && b == -1 | pos == 23 && b == 0 | pos == 23 && b == 1 | pos == 23 && b == 2 | pos == 23 && b == 3 | pos == 23 && b == 4 | pos == 23 && b == 5 | pos == 23 && b == 6 | pos == 23 && b == 7 | pos == 23 && b == 8 | pos == 24 && b == -8 | pos == 24 && b == -7 | pos == 24 && b == -6 | pos == 24 && b == -5 | pos == 24 && b == -4 | pos == 24 && b == -3 | pos == 24 && b == -2 | pos == 24 && b == -1 | pos == 24 && b == 0 | pos == 24 && b == 1 | pos == 24 && b == 2 | pos == 24 && b == 3 | pos == 24 && b == 4 | pos == 24 && b == 5 | pos == 24 && b == 6 | pos == 24 && b == 7 | pos == 24 && b == 8 | pos == 25 && b == -8 | pos == 25 && b == -7 | pos == 25 && b == -6 | pos == 25 && b == -5 | pos == 25 && b == -4 | pos == 25 && b == -3 | pos == 25 && b == -2 | pos == 25 && b == -1 | pos == 25 && b == 0 | pos == 25 && b == 1 | pos == 25 && b == 2 | pos == 25 && b == 3 | pos == 25 && b == 4 | pos == 25 && b == 5 | pos == 25 && b == 6 | pos == 25 && b == 7 | pos == 25 && b == 8 | pos == 26 && b == -8 | pos == 26 && b == -7 | pos == 26 && b == -6 | pos == 26 && b == -5 | pos == 26 && b == -4 | pos == 26 && b == -3 | pos == 26 && b == -2 | pos == 26 && b == -1 | pos == 26 && b == 0 | pos == 26 && b == 1 | pos == 26 && b == 2 | pos == 26 && b == 3 | pos == 26 && b == 4 | pos == 26 && b == 5 | pos == 26 && b == 6 | pos == 26 && b == 7 | pos == 26 && b == 8 | pos == 27 && b == -8 | pos == 27 && b == -7 | pos == 27 && b == -6 | pos == 27 && b == -5 | pos == 27 && b == -4 | pos == 27 && b == -3 | pos == 27 && b == -2 | pos == 27 && b == -1 | pos == 27 && b == 0 | pos == 27 && b == 1 | pos == 27 && b == 2 | pos == 27 && b == 3 | pos == 27 && b == 4 | pos == 27 && b == 5 | pos == 27 && b == 6 | pos == 27 && b == 7 | pos == 27 && b == 8 | pos == 28 && b == -8 | pos == 28 && b == -7 | pos == 28 && b == -6 | pos == 28 && b == -5 | pos == 28 && b == -4 | pos == 28 && b == -3 | pos == 28 && b == -2 | pos == 28 && b == -1 | pos == 28 && b == 0 | pos == 28 && b == 1 | pos == 28 && b == 2 | pos == 28 && b == 3 | pos == 28 && b == 4 | pos == 28 && b == 5 | pos == 28 && b == 6 | pos == 28 && b == 7 | pos == 28 && b == 8 | pos == 29 && b == -8 | pos == 29 && b == -7 | pos == 29 && b == -6 | pos == 29 && b == -5 | pos == 29 && b == -4 | pos == 29 && b == -3 | pos == 29 && b == -2 | pos == 29 && b == -1 | pos == 29 && b == 0 | pos == 29 && b == 1 | pos == 29 && b == 2 | pos == 29 && b == 3 | pos == 29 && b == 4 | pos == 29 && b == 5 | pos == 29 && b == 6 | pos == 29 && b == 7 | pos == 29 && b == 8 | pos == 30 && b == -8 | pos == 30 && b == -7 | pos == 30 && b == -6 | pos == 30 && b == -5 | pos == 30 && b == -4 | pos == 30 && b == -3 | pos == 30 && b == -2 | pos == 30 && b == -1 | pos == 30 && b == 0 | pos == 30 && b == 1 | pos == 30 && b == 2 | pos == 30 && b == 3 | pos == 30 && b == 4 | pos == 30 && b == 5 | pos == 30 && b == 6 | pos == 30 && b == 7 | pos == 30 && b == 8 | pos == 31 && b == -8 | pos == 31 && b == -7 | pos == 31 && b == -6 | pos == 31 && b == -5 | pos == 31 && b == -4 | pos == 31 && b == -3 | pos == 31 && b == -2 | pos == 31 && b == -1 | pos == 31 && b == 0 | pos == 31 && b == 1 | pos == 31 && b == 2 | pos == 31 && b == 3 | pos == 31 && b == 4 | pos == 31 && b == 5 | pos == 31 && b == 6 | pos == 31 && b == 7 | pos == 31 && b == 8
//@   modifies *t
//@   ensures rednb(*t)
//@   ensures pos == 0 ==> (PN0(*t) == mulB(b) && nvalid0(*t))
//@   ensures pos > 0 ==> (PN(*t) == mulB(b * pow2(8 * pos)) && nvalid(*t))

//@ config asm
// the assembly selector: the secrecy clause is checked by a mechanical scan of the .s text
//@ func scalarmultBaseChooseNielsAMD64(u, table, t, sign)
//@   ct-only
//@   ct
//@ func scalarmultBaseChooseNiels(t, table, pos, b)
//@   ct public pos
//@   assumed
//@   bind table = &NielsBaseMultiples
//@   requires 0 <= pos && pos < 32 && -8 <= b && b <= 8
//@   modifies *t
//@   ensures rednb(*t)
//@   ensures pos == 0 ==> (PN0(*t) == mulB(b) && nvalid0(*t))
//@   ensures pos > 0 ==> (PN(*t) == mulB(b * pow2(8 * pos)) && nvalid(*t))
//@ config any

// ---------------- scalar multiplications ----------------

// group laws on multiples of the base point  [M2]
// linear combinations a*Q + b*B  [M2: abelian group]
//@ axiom LCADD [M2]: allS(Q, Pt, all(a, all(b, all(c, all(d, padd(lc2(Q, a, b), lc2(Q, c, d)) == lc2(Q, a + c, b + d))))))
//@ axiom LCSUB [M2]: allS(Q, Pt, all(a, all(b, all(c, all(d, psub(lc2(Q, a, b), lc2(Q, c, d)) == lc2(Q, a - c, b - d))))))
//@ axiom LCDBL [M2]: allS(Q, Pt, all(a, all(b, pdbl(lc2(Q, a, b)) == lc2(Q, 2 * a, 2 * b))))
//@ axiom LCADDB [M2]: allS(Q, Pt, all(a, all(b, all(k, padd(lc2(Q, a, b), mulB(k)) == lc2(Q, a, b + k)))))
//@ axiom LCSUBB [M2]: allS(Q, Pt, all(a, all(b, all(k, psub(lc2(Q, a, b), mulB(k)) == lc2(Q, a, b - k)))))
//@ axiom GLC [M2]: allS(Q, Pt, all(a, all(b, all(c, all(d, padd(lc2(Q, a, b), lc2(Q, c, d)) == lc2(Q, a + c, b + d))))))
//@ axiom LCONE [M2]: allS(Q, Pt, Q == lc2(Q, 1, 0))
//@ axiom LCZERO [M2]: allS(Q, Pt, pt3(0, 1, 1) == lc2(Q, 0, 0))
//@ ufun hv1(Int) Int
//@ ufun hv2(Int) Int
//@ axiom GADD [M2]: all(a, all(b, padd(mulB(a), mulB(b)) == mulB(a + b)))
//@ axiom GDBL [M2]: all(a, pdbl(mulB(a)) == mulB(2 * a))
// multiplying the t component of (y-x, y+x, 2xy) by d gives the form (y-x, y+x, 2dxy) of the same point  [bridge]
//@ axiom N0TON [M2]: all(a, all(b, all(c, all(k, ptN0(a, b, c) == mulB(k) ==> ptN(a, b, (c * D) % P) == mulB(k)))))

//@ func ScalarmultBaseNiels(r, basepointTable, s)
//@   ct
//@   bind basepointTable = &NielsBaseMultiples
//@   uses GADD, GDBL, N0TON
//@   requires canon(*s) && sval(*s) < 1<<255
//@   modifies *r
//@   lemma before call scalarmultBaseChooseNiels#2 : red4(*r) && tvalid(*r) ;; assume P3(*r) == mulB(b[1])
//@   lemma after call Mul#1 : PN(t) == mulB(b[0]) && nvalid(t)
//@   ensures red4(*r) && tvalid(*r)
//@   ensures P3(*r) == mulB(sval(old(*s)))

// [s1]p1 + [s2]B by interleaved sliding windows. Proved of the body: memory safety, the
// magnitude discipline at every call site and the frame. The group-level result is ASSUMED
// (it rests on the assumed digit property of ContractSlidingWindow and on a Horner invariant
// over a data-dependent loop that is not discharged).
//@ func DoubleScalarmultVartime(r, p1, s1, s2)
//@   uses ground_tables, GLC, LCADD, LCSUB, LCDBL, LCADDB, LCSUBB, LCONE, LCZERO
//@   requires red4(*p1) && tvalid(*p1) && canon(*s1) && canon(*s2)
//@   modifies *r
// hv1(i), hv2(i): value of the digits above position i (Horner form), ghost functions defined by
// the recursion below; that the recursion sums to the weighted digit sum is Horner's rule [HORNER]
//@   lemma after call Double#1 : P3(*p1) == lc2(P3(*p1), 1, 0)
//@   lemma at loop#2 : red3(*r) ;; assume hv1(255) == 0 && hv2(255) == 0 && forallq(k, 0, 256, hv1(k-1) == 2 * hv1(k) + slide1[k] && hv2(k-1) == 2 * hv2(k) + slide2[k]) && hv1(0-1) == sum(k, 0, 256, slide1[k] * pow2(k)) && hv2(0-1) == sum(k, 0, 256, slide2[k] * pow2(k))
//@   loop#2 modifies i
//@   loop#2 invariant -1 <= i && i <= 255 && hv1(i) == 0 && hv2(i) == 0
//@   loop#3 modifies i, *r, t
//@   loop#3 invariant -1 <= i && i <= 255 && red3(*r) && P3(*r) == lc2(P3(*p1), hv1(i), hv2(i))
//@   split before call p1p1ToFull#1 : slide1[i] < 0
//@   split before call p1p1ToFull#2 : slide2[i] < 0
//@   lemma before call pnielsAddP1P1Vartime#1 : bycases(ite(slide1[i] < 0, 0 - slide1[i], slide1[i]) / 2, 0, 8, okpn(pre1[ite(slide1[i] < 0, 0 - slide1[i], slide1[i]) / 2]) && PPN(pre1[ite(slide1[i] < 0, 0 - slide1[i], slide1[i]) / 2]) == lc2(P3(*p1), 2 * (ite(slide1[i] < 0, 0 - slide1[i], slide1[i]) / 2) + 1, 0))
//@   lemma before call nielsAdd2P1p1Vartime#1 : bycases(ite(slide2[i] < 0, 0 - slide2[i], slide2[i]) / 2, 0, 32, rednb(nielsSlidingMultiples[ite(slide2[i] < 0, 0 - slide2[i], slide2[i]) / 2]) && PN(nielsSlidingMultiples[ite(slide2[i] < 0, 0 - slide2[i], slide2[i]) / 2]) == mulB(2 * (ite(slide2[i] < 0, 0 - slide2[i], slide2[i]) / 2) + 1))
//@   ensures red3(*r)
//@   ensures (sval(*s1) < 1<<253 && sval(*s2) < 1<<253) ==> P3(*r) == lc2(P3(*p1), sval(*s1), sval(*s2))
