//go:build verif

// Contracts for package ge25519 (group operations on the twisted Edwards curve
// -x^2 + y^2 = 1 + d x^2 y^2 over GF(2^255-19)).
// Comment-only file; the //@ lines are read by /verif/govc.
//
// Two levels:
//  * field level (proved of the code): every output coordinate is congruent mod P
//    to a stated polynomial of the input coordinates, every field-operation call
//    site respects the callee's magnitude precondition, outputs lie in stated
//    magnitude classes, and t*z == x*y ("tvalid") where a full point is produced;
//  * group level: for the leaf formula functions the statement "these polynomials
//    implement the group law" is an ASSUMED postcondition (assume-ensures, bridge
//    lemmas B1..B12 of DESIGN.md); for composite functions the group-level
//    postcondition is proved from the callees' contracts.

package ge25519

//@ config any
//@ const D = 37095705934669439343138083508754565189542113879843219016388785533085940283555
//@ const D2 = (2 * D) % P
//@ const SQRTM1 = 19681161376707505956807079304988542015446066515923890162744021073123829784752
//@ usort Pt
//@ ufun pt3(Int, Int, Int) Pt
//@ ufun pt11(Int, Int, Int, Int) Pt
//@ ufun ptN(Int, Int, Int) Pt
//@ ufun ptPN(Int, Int, Int, Int) Pt
//@ ufun padd(Pt, Pt) Pt
//@ ufun psub(Pt, Pt) Pt
//@ ufun pneg(Pt) Pt
//@ ufun pdbl(Pt) Pt
//@ ufun mulB(Int) Pt
//@ ufun lc2(Pt, Int, Int) Pt
//@ ufun isneutral(Pt) Bool
//@ spec fe(x) = fval(x) % P
//@ spec P3(g) = pt3(fe(g.x), fe(g.y), fe(g.z))
//@ spec P11(g) = pt11(fe(g.x), fe(g.y), fe(g.z), fe(g.t))
//@ spec PN(g) = ptN(fe(g.ysubx), fe(g.xaddy), fe(g.t2d))
//@ spec PPN(g) = ptPN(fe(g.ysubx), fe(g.xaddy), fe(g.z), fe(g.t2d))
//@ spec smul8(X) = pdbl(pdbl(pdbl(X)))
//@ spec tvalid(g) = cong(fval(g.t) * fval(g.z), fval(g.x) * fval(g.y), P)
//@ spec red3(g) = mag(g.x, RED) && mag(g.y, RED) && mag(g.z, RED)
//@ spec red4(g) = mag(g.x, RED) && mag(g.y, RED) && mag(g.z, RED) && mag(g.t, RED)
//@ spec mulok4(g) = mulok(g.x) && mulok(g.y) && mulok(g.z) && mulok(g.t)
//@ spec rednb(g) = mag(g.ysubx, RED) && mag(g.xaddy, RED) && mag(g.t2d, RED)
//@ spec okpn(g) = mag(g.ysubx, SUB1) && mag(g.xaddy, ADD1) && mag(g.z, RED) && mag(g.t2d, RED)
//@ spec X(g) = fval(g.x)
//@ spec Y(g) = fval(g.y)
//@ spec Z(g) = fval(g.z)
//@ spec T(g) = fval(g.t)

// ---------------- conversions ----------------

//@ func p1p1ToPartial(r, p)
//@   requires mulok4(*p)
//@   modifies r.x, r.y, r.z
//@   ensures red3(*r)
//@   ensures cong(X(*r), X(*p) * T(*p), P) && cong(Y(*r), Y(*p) * Z(*p), P) && cong(Z(*r), Z(*p) * T(*p), P)
//@   assume-ensures P3(*r) == P11(*p)

//@ func p1p1ToFull(r, p)
//@   requires mulok4(*p)
//@   modifies *r
//@   ensures red4(*r) && tvalid(*r)
//@   ensures cong(X(*r), X(*p) * T(*p), P) && cong(Y(*r), Y(*p) * Z(*p), P) && cong(Z(*r), Z(*p) * T(*p), P) && cong(T(*r), X(*p) * Y(*p), P)
//@   assume-ensures P3(*r) == P11(*p)

//@ func fullToPniels(r, p)
//@   requires red4(*p) && tvalid(*p)
//@   modifies *r
//@   ensures okpn(*r)
//@   ensures cong(fval(r.ysubx), Y(*p) - X(*p), P) && cong(fval(r.xaddy), Y(*p) + X(*p), P) && r.z == p.z && cong(fval(r.t2d), T(*p) * D2, P)
//@   assume-ensures PPN(*r) == P3(*p)

// ---------------- adding & doubling ----------------

//@ func addP1p1(r, p, q)
//@   alias p==q
//@   requires red4(*p) && tvalid(*p) && red4(*q) && tvalid(*q)
//@   modifies *r
//@   ensures mag(r.x, SUB1) && mag(r.y, ADD1) && mag(r.z, AB) && mag(r.t, AB)
//@   ensures cong(X(*r), (Y(*p) + X(*p)) * (Y(*q) + X(*q)) - (Y(*p) - X(*p)) * (Y(*q) - X(*q)), P)
//@   ensures cong(Y(*r), (Y(*p) + X(*p)) * (Y(*q) + X(*q)) + (Y(*p) - X(*p)) * (Y(*q) - X(*q)), P)
//@   ensures cong(Z(*r), 2 * Z(*p) * Z(*q) + T(*p) * T(*q) * D2, P)
//@   ensures cong(T(*r), 2 * Z(*p) * Z(*q) - T(*p) * T(*q) * D2, P)
//@   assume-ensures P11(*r) == padd(P3(*p), P3(*q))

//@ func doubleP1p1(r, p)
//@   requires red3(*p)
//@   modifies *r
//@   ensures mag(r.x, AB) && mag(r.y, ADD1) && mag(r.z, SUB1) && mag(r.t, AB)
//@   ensures cong(X(*r), 2 * X(*p) * Y(*p), P)
//@   ensures cong(Y(*r), Y(*p) * Y(*p) + X(*p) * X(*p), P)
//@   ensures cong(Z(*r), Y(*p) * Y(*p) - X(*p) * X(*p), P)
//@   ensures cong(T(*r), 2 * Z(*p) * Z(*p) - Y(*p) * Y(*p) + X(*p) * X(*p), P)
//@   assume-ensures P11(*r) == pdbl(P3(*p))

//@ func nielsAdd2P1p1Vartime(r, p, q, signbit)
//@   requires red4(*p) && tvalid(*p) && rednb(*q) && (signbit == 0 || signbit == 1)
//@   modifies *r
//@   ensures mulok4(*r)
//@   ensures signbit == 0 ==> cong(X(*r), (Y(*p) + X(*p)) * fval(q.xaddy) - (Y(*p) - X(*p)) * fval(q.ysubx), P)
//@   ensures signbit == 0 ==> cong(Y(*r), (Y(*p) + X(*p)) * fval(q.xaddy) + (Y(*p) - X(*p)) * fval(q.ysubx), P)
//@   ensures signbit == 0 ==> cong(Z(*r), 2 * Z(*p) + T(*p) * fval(q.t2d), P)
//@   ensures signbit == 0 ==> cong(T(*r), 2 * Z(*p) - T(*p) * fval(q.t2d), P)
//@   ensures signbit != 0 ==> cong(X(*r), (Y(*p) + X(*p)) * fval(q.ysubx) - (Y(*p) - X(*p)) * fval(q.xaddy), P)
//@   ensures signbit != 0 ==> cong(Y(*r), (Y(*p) + X(*p)) * fval(q.ysubx) + (Y(*p) - X(*p)) * fval(q.xaddy), P)
//@   ensures signbit != 0 ==> cong(Z(*r), 2 * Z(*p) - T(*p) * fval(q.t2d), P)
//@   ensures signbit != 0 ==> cong(T(*r), 2 * Z(*p) + T(*p) * fval(q.t2d), P)
//@   assume-ensures signbit == 0 ==> P11(*r) == padd(P3(*p), PN(*q))
//@   assume-ensures signbit != 0 ==> P11(*r) == psub(P3(*p), PN(*q))

//@ func pnielsAddP1P1Vartime(r, p, q, signbit)
//@   requires red4(*p) && tvalid(*p) && okpn(*q) && (signbit == 0 || signbit == 1)
//@   modifies *r
//@   ensures mulok4(*r)
//@   ensures signbit == 0 ==> cong(X(*r), (Y(*p) + X(*p)) * fval(q.xaddy) - (Y(*p) - X(*p)) * fval(q.ysubx), P)
//@   ensures signbit == 0 ==> cong(Y(*r), (Y(*p) + X(*p)) * fval(q.xaddy) + (Y(*p) - X(*p)) * fval(q.ysubx), P)
//@   ensures signbit == 0 ==> cong(Z(*r), 2 * Z(*p) * fval(q.z) + T(*p) * fval(q.t2d), P)
//@   ensures signbit == 0 ==> cong(T(*r), 2 * Z(*p) * fval(q.z) - T(*p) * fval(q.t2d), P)
//@   ensures signbit != 0 ==> cong(X(*r), (Y(*p) + X(*p)) * fval(q.ysubx) - (Y(*p) - X(*p)) * fval(q.xaddy), P)
//@   ensures signbit != 0 ==> cong(Y(*r), (Y(*p) + X(*p)) * fval(q.ysubx) + (Y(*p) - X(*p)) * fval(q.xaddy), P)
//@   ensures signbit != 0 ==> cong(Z(*r), 2 * Z(*p) * fval(q.z) - T(*p) * fval(q.t2d), P)
//@   ensures signbit != 0 ==> cong(T(*r), 2 * Z(*p) * fval(q.z) + T(*p) * fval(q.t2d), P)
//@   assume-ensures signbit == 0 ==> P11(*r) == padd(P3(*p), PPN(*q))
//@   assume-ensures signbit != 0 ==> P11(*r) == psub(P3(*p), PPN(*q))

//@ func doublePartial(r, p)
//@   alias r==p
//@   requires red3(*p)
//@   modifies r.x, r.y, r.z
//@   ensures red3(*r)
//@   ensures P3(*r) == pdbl(P3(old(*p)))

//@ func Double(r, p)
//@   alias r==p
//@   requires red3(*p)
//@   modifies *r
//@   ensures red4(*r) && tvalid(*r)
//@   ensures P3(*r) == pdbl(P3(old(*p)))

//@ func Add(r, p, q)
//@   alias r==p | p==q | r==p==q
//@   requires red4(*p) && tvalid(*p) && red4(*q) && tvalid(*q)
//@   modifies *r
//@   ensures red4(*r) && tvalid(*r)
//@   ensures P3(*r) == padd(P3(old(*p)), P3(old(*q)))

//@ func nielsAdd2(r, q)
//@   requires red4(*r) && tvalid(*r) && rednb(*q)
//@   modifies *r
//@   ensures red4(*r) && tvalid(*r)
//@   ensures cong(X(*r), ((Y(old(*r)) + X(old(*r))) * fval(q.xaddy) - (Y(old(*r)) - X(old(*r))) * fval(q.ysubx)) * (2 * Z(old(*r)) - T(old(*r)) * fval(q.t2d)), P)
//@   ensures cong(Y(*r), ((Y(old(*r)) + X(old(*r))) * fval(q.xaddy) + (Y(old(*r)) - X(old(*r))) * fval(q.ysubx)) * (2 * Z(old(*r)) + T(old(*r)) * fval(q.t2d)), P)
//@   ensures cong(Z(*r), (2 * Z(old(*r)) + T(old(*r)) * fval(q.t2d)) * (2 * Z(old(*r)) - T(old(*r)) * fval(q.t2d)), P)
//@   assume-ensures P3(*r) == padd(P3(old(*r)), PN(*q))

//@ func pnielsAdd(r, p, q)
//@   alias r==q
//@   requires red4(*p) && tvalid(*p) && okpn(*q)
//@   modifies *r
//@   ensures okpn(*r)
//@   assume-ensures PPN(*r) == padd(P3(*p), PPN(old(*q)))

// ---------------- cofactor_equal.go ----------------

//@ func geSub(r, p, q)
//@   requires red4(*p) && tvalid(*p) && okpn(*q)
//@   modifies *r
//@   ensures mulok4(*r)
//@   ensures cong(X(*r), (Y(*p) + X(*p)) * fval(q.ysubx) - (Y(*p) - X(*p)) * fval(q.xaddy), P)
//@   ensures cong(Y(*r), (Y(*p) + X(*p)) * fval(q.ysubx) + (Y(*p) - X(*p)) * fval(q.xaddy), P)
//@   ensures cong(Z(*r), 2 * Z(*p) * fval(q.z) - fval(q.t2d) * T(*p), P)
//@   ensures cong(T(*r), 2 * Z(*p) * fval(q.z) + fval(q.t2d) * T(*p), P)
//@   assume-ensures P11(*r) == psub(P3(*p), PPN(*q))

//@ func ProjectiveToExtended(r, p)
//@   requires red3(*p)
//@   modifies *r
//@   ensures red4(*r) && tvalid(*r)
//@   ensures cong(X(*r), X(*p) * Z(*p), P) && cong(Y(*r), Y(*p) * Z(*p), P) && cong(Z(*r), Z(*p) * Z(*p), P) && cong(T(*r), X(*p) * Y(*p), P)
//@   assume-ensures P3(*r) == P3(*p)

//@ func CofactorMultiply(r, p)
//@   alias r==p
//@   requires red3(*p)
//@   modifies *r
//@   ensures red4(*r) && tvalid(*r)
//@   ensures P3(*r) == smul8(P3(old(*p)))

//@ func IsNeutralVartime(q)
//@   requires red3(*q)
//@   modifies nothing
//@   ensures result == (fe(q.x) == 0 && fe(q.y) == fe(q.z))
//@   assume-ensures result == isneutral(P3(*q))

//@ func CofactorEqual(p, q)
//@   alias p==q
//@   requires red4(*p) && tvalid(*p) && red4(*q) && tvalid(*q)
//@   modifies nothing
//@   ensures result == isneutral(smul8(psub(P3(*p), P3(*q))))

// ---------------- pack & unpack ----------------

//@ ufun encpt(Pt) Bytes
//@ ufun decpt(Bytes) Pt
//@ ufun decodable(Bytes) Bool

//@ func Pack(r, p)
//@   requires len(r) >= 32 && red3(*p)
//@   modifies r[0:32]
//@   cut before call Contract#1 havoc : mag(tx, RED) && mag(ty, RED) && feq(fval(tx), X(*p) * pow(Z(*p), P - 2), P) && feq(fval(ty), Y(*p) * pow(Z(*p), P - 2), P)
//@   ensures le(r[0:32]) == (Y(*p) * pow(Z(*p), P - 2)) % P + (((X(*p) * pow(Z(*p), P - 2)) % P) % 2) << 255
//@   assume-ensures bytesOf(r[0:32]) == encpt(P3(*p))

//@ spec UU(y) = pow(y, 2) - 1
//@ spec VV(y) = D * pow(y, 2) + 1

//@ func UnpackNegativeVartime(r, p)
//@   requires len(p) >= 32
//@   modifies *r
//@   ensures result ==> (mag(r.x, RED) && mag(r.y, CANON) && isone(r.z) && mag(r.t, RED) && tvalid(*r))
//@   ensures result ==> fval(r.y) == le(p[0:32]) % (1<<255)
//@   ensures result ==> cong(VV(fval(r.y)) * pow(X(*r), 2), UU(fval(r.y)), P)
//@   ensures result ==> (fe(r.x) == 0 || fe(r.x) % 2 != p[31] >> 7)
//@   assume-ensures result == decodable(bytesOf(p[0:32]))
//@   assume-ensures result ==> P3(*r) == pneg(decpt(bytesOf(p[0:32])))

//@ func UnpackVartime(r, p)
//@   requires len(p) >= 32
//@   modifies *r
//@   ensures result ==> (mag(r.x, RED) && mag(r.y, CANON) && isone(r.z) && mag(r.t, RED) && tvalid(*r))
//@   ensures result ==> fval(r.y) == le(p[0:32]) % (1<<255)
//@   ensures result ==> cong(VV(fval(r.y)) * pow(X(*r), 2), UU(fval(r.y)), P)
//@   ensures result ==> (fe(r.x) == 0 || fe(r.x) % 2 == p[31] >> 7)
//@   assume-ensures result == decodable(bytesOf(p[0:32]))
//@   assume-ensures result ==> P3(*r) == decpt(bytesOf(p[0:32]))
