//go:build verif

// Contracts for package modm (scalar arithmetic mod L).
// Comment-only file; the //@ lines are read by /verif/govc.

package modm

//@ config any
//@ const L = (1<<252) + 27742317777372353535851937790883648493
//@ const MU = (1<<512) / L

// ===================================================================
// 64-bit layout: 5 limbs of 56 bits
// ===================================================================

//@ config limbs64
//@ spec sval(x) = x[0] + x[1]<<56 + x[2]<<112 + x[3]<<168 + x[4]<<224
//@ spec limbs56(x) = x[0] < 1<<56 && x[1] < 1<<56 && x[2] < 1<<56 && x[3] < 1<<56 && x[4] < 1<<56
//@ spec canon(x) = x[0] < 1<<56 && x[1] < 1<<56 && x[2] < 1<<56 && x[3] < 1<<56 && x[4] < 1<<32
//@ spec reduced(x) = canon(x) && sval(x) < L

//@ func reduce(r)
//@   requires limbs56(*r)
//@   modifies *r
//@   ensures limbs56(*r)
//@   ensures sval(*r) == ite(sval(old(*r)) >= L, sval(old(*r)) - L, sval(old(*r)))

//@ func (*Bignum256).Reset(r)
//@   modifies *r
//@   ensures forall(i, 0, 5, r[i] == 0)

//@ func Add(r, x, y)
//@   alias r==x | r==y | x==y | r==x==y
//@   requires reduced(*x) && reduced(*y)
//@   modifies *r
//@   ensures reduced(*r)
//@   ensures cong(sval(*r), sval(old(*x)) + sval(old(*y)), L)

//@ func barrettReduce(r, q1, r1)
//@   alias r==r1
//@   requires limbs56(*q1) && q1[4] < 1<<40 && r1[0] < 1<<56 && r1[1] < 1<<56 && r1[2] < 1<<56 && r1[3] < 1<<56 && r1[4] < 1<<40
//@   requires q1[0] % (1<<16) == r1[4] >> 24
//@   modifies *r
//@   cut after store q3 havoc q3 : limbs56(q3) && (sval(q3) << 264) <= MU * sval(*q1) && MU * sval(*q1) < (sval(q3) << 264) + (1<<264) + (1<<228)
//@   cut after store r2 havoc r2 : r2[0] < 1<<56 && r2[1] < 1<<56 && r2[2] < 1<<56 && r2[3] < 1<<56 && r2[4] < 1<<40 && cong(sval(r2), sval(q3) * L, 1<<264)
//@   cut before call reduce#1 havoc *r : limbs56(*r) && r[4] < 1<<40 && cong(sval(*r) + sval(r2), old(r1[0]) + old(r1[1])<<56 + old(r1[2])<<112 + old(r1[3])<<168 + old(r1[4])<<224, 1<<264)
//@   cut before call reduce#1 havoc : cong(sval(*r), (sval(old(*q1)) << 248) + old(r1[0]) + old(r1[1])<<56 + old(r1[2])<<112 + old(r1[3])<<168 + (old(r1[4]) % (1<<24))<<224 - sval(q3) * L, 1<<264)
//@   cut before call reduce#1 havoc : 0 <= (sval(old(*q1)) << 248) + old(r1[0]) + old(r1[1])<<56 + old(r1[2])<<112 + old(r1[3])<<168 + (old(r1[4]) % (1<<24))<<224 - sval(q3) * L && (sval(old(*q1)) << 248) + old(r1[0]) + old(r1[1])<<56 + old(r1[2])<<112 + old(r1[3])<<168 + (old(r1[4]) % (1<<24))<<224 - sval(q3) * L < 3*L
//@   cut before call reduce#1 havoc : sval(*r) == (sval(old(*q1)) << 248) + old(r1[0]) + old(r1[1])<<56 + old(r1[2])<<112 + old(r1[3])<<168 + (old(r1[4]) % (1<<24))<<224 - sval(q3) * L && sval(*r) < 3*L
//@   ensures reduced(*r)
//@   ensures cong(sval(*r), (sval(old(*q1)) << 248) + old(r1[0]) + old(r1[1])<<56 + old(r1[2])<<112 + old(r1[3])<<168 + (old(r1[4]) % (1<<24))<<224, L)

//@ func Mul(r, x, y)
//@   alias r==x | r==y | x==y | r==x==y
//@   requires canon(*x) && canon(*y)
//@   modifies *r
//@   ensures reduced(*r)
//@   ensures cong(sval(*r), sval(old(*x)) * sval(old(*y)), L)

//@ func Expand(out, in)
//@   requires len(in) <= 64
//@   modifies *out
//@   ensures canon(*out)
//@   ensures len(in) >= 32 ==> reduced(*out)
//@   ensures len(in) == 64 ==> cong(sval(*out), le(in[0:64]), L)
//@   ensures len(in) == 32 ==> cong(sval(*out), le(in[0:32]), L)
//@   ensures len(in) == 16 ==> sval(*out) == le(in[0:16])

//@ func ExpandRaw(out, in)
//@   requires len(in) >= 32
//@   modifies *out
//@   ensures canon(*out)
//@   ensures sval(*out) == le(in[0:32])

//@ func Contract(out, in)
//@   requires len(out) >= 32 && canon(*in)
//@   modifies out[0:32]
//@   ensures le(out[0:32]) == sval(old(*in))

//@ func IsZeroVartime(a)
//@   modifies nothing
//@   ensures result == (a[0] == 0 && a[1] == 0 && a[2] == 0 && a[3] == 0 && a[4] == 0)

//@ func IsOneVartime(a)
//@   modifies nothing
//@   ensures result == (a[0] == 1 && a[1] == 0 && a[2] == 0 && a[3] == 0 && a[4] == 0)

//@ func IsAtMost128bitsVartime(a)
//@   requires limbs56(*a)
//@   modifies nothing
//@   ensures result == (sval(*a) < 1<<128)

//@ config limbs64
//@ func ContractWindow4(r, in)
//@   requires canon(*in) && sval(*in) < 1<<255
//@   modifies *r
//@   ensures forall(i, 0, 63, -8 <= r[i] && r[i] < 8)
//@   ensures 0 <= r[63] && r[63] <= 8
//@   ensures sum(i, 0, 64, r[i] * pow2(4*i)) == sval(old(*in))
