//go:build verif

// Contracts for package modm (scalar arithmetic mod L).
// Comment-only file; the //@ lines are read by /verif/govc.

package modm

//@ config any
//@ const L = (1<<252) + 27742317777372353535851937790883648493
//@ const MU = (1<<512) / L

// ===================================================================
// 64-bit layout: 5 limbs of 56 bits
// ===================================================================

//@ config limbs64
//@ spec sval(x) = x[0] + x[1]<<56 + x[2]<<112 + x[3]<<168 + x[4]<<224
//@ spec limbs56(x) = x[0] < 1<<56 && x[1] < 1<<56 && x[2] < 1<<56 && x[3] < 1<<56 && x[4] < 1<<56
//@ spec canon(x) = x[0] < 1<<56 && x[1] < 1<<56 && x[2] < 1<<56 && x[3] < 1<<56 && x[4] < 1<<32
//@ spec reduced(x) = canon(x) && sval(x) < L

//@ func ltModM(a, b)
//@   ct-only
//@   ct
//@ func reduce(r)
//@   ct
//@   requires limbs56(*r)
//@   modifies *r
//@   ensures limbs56(*r)
//@   ensures sval(*r) == ite(sval(old(*r)) >= L, sval(old(*r)) - L, sval(old(*r)))

//@ func (*Bignum256).Reset(r)
//@   ct
//@   modifies *r
//@   ensures forall(i, 0, 5, r[i] == 0)

//@ func Add(r, x, y)
//@   ct
//@   alias r==x | r==y | x==y | r==x==y
//@   requires reduced(*x) && reduced(*y)
//@   modifies *r
//@   ensures reduced(*r)
//@   ensures cong(sval(*r), sval(old(*x)) + sval(old(*y)), L)

//@ func barrettReduce(r, q1, r1)
//@   ct
//@   alias r==r1
//@   requires limbs56(*q1) && q1[4] < 1<<40 && r1[0] < 1<<56 && r1[1] < 1<<56 && r1[2] < 1<<56 && r1[3] < 1<<56 && r1[4] < 1<<40
//@   requires q1[0] % (1<<16) == r1[4] >> 24
//@   modifies *r
//@   cut after store q3 havoc q3 : limbs56(q3) && (sval(q3) << 264) <= MU * sval(*q1) && MU * sval(*q1) < (sval(q3) << 264) + (1<<264) + (1<<228)
//@   cut after store r2 havoc r2 : r2[0] < 1<<56 && r2[1] < 1<<56 && r2[2] < 1<<56 && r2[3] < 1<<56 && r2[4] < 1<<40 && cong(sval(r2), sval(q3) * L, 1<<264)
//@   cut before call reduce#1 havoc *r : limbs56(*r) && r[4] < 1<<40 && cong(sval(*r) + sval(r2), old(r1[0]) + old(r1[1])<<56 + old(r1[2])<<112 + old(r1[3])<<168 + old(r1[4])<<224, 1<<264)
//@   cut before call reduce#1 havoc : cong(sval(*r), (sval(old(*q1)) << 248) + old(r1[0]) + old(r1[1])<<56 + old(r1[2])<<112 + old(r1[3])<<168 + (old(r1[4]) % (1<<24))<<224 - sval(q3) * L, 1<<264)
//@   cut before call reduce#1 havoc : 0 <= (sval(old(*q1)) << 248) + old(r1[0]) + old(r1[1])<<56 + old(r1[2])<<112 + old(r1[3])<<168 + (old(r1[4]) % (1<<24))<<224 - sval(q3) * L && (sval(old(*q1)) << 248) + old(r1[0]) + old(r1[1])<<56 + old(r1[2])<<112 + old(r1[3])<<168 + (old(r1[4]) % (1<<24))<<224 - sval(q3) * L < 3*L
//@   cut before call reduce#1 havoc : sval(*r) == (sval(old(*q1)) << 248) + old(r1[0]) + old(r1[1])<<56 + old(r1[2])<<112 + old(r1[3])<<168 + (old(r1[4]) % (1<<24))<<224 - sval(q3) * L && sval(*r) < 3*L
//@   ensures reduced(*r)
//@   ensures cong(sval(*r), (sval(old(*q1)) << 248) + old(r1[0]) + old(r1[1])<<56 + old(r1[2])<<112 + old(r1[3])<<168 + (old(r1[4]) % (1<<24))<<224, L)

//@ func Mul(r, x, y)
//@   ct
//@   alias r==x | r==y | x==y | r==x==y
//@   requires canon(*x) && canon(*y)
//@   modifies *r
//@   ensures reduced(*r)
//@   ensures cong(sval(*r), sval(old(*x)) * sval(old(*y)), L)

//@ func Expand(out, in)
//@   ct
//@   requires len(in) <= 64
//@   modifies *out
//@   ensures canon(*out)
//@   ensures len(in) >= 32 ==> reduced(*out)
//@   ensures len(in) == 64 ==> cong(sval(*out), le(in[0:64]), L)
//@   ensures len(in) == 32 ==> cong(sval(*out), le(in[0:32]), L)
//@   ensures len(in) == 16 ==> sval(*out) == le(in[0:16])
//@   ensures len(in) == 64 ==> sval(*out) == le(in[0:64]) % L
//@   ensures len(in) == 32 ==> sval(*out) == le(in[0:32]) % L

//@ func ExpandRaw(out, in)
//@   ct
//@   requires len(in) >= 32
//@   modifies *out
//@   ensures canon(*out)
//@   ensures sval(*out) == le(in[0:32])

//@ func Contract(out, in)
//@   ct
//@   requires len(out) >= 32 && canon(*in)
//@   modifies out[0:32]
//@   ensures le(out[0:32]) == sval(old(*in))

//@ func IsZeroVartime(a)
//@   modifies nothing
//@   ensures result == (a[0] == 0 && a[1] == 0 && a[2] == 0 && a[3] == 0 && a[4] == 0)

//@ func IsOneVartime(a)
//@   modifies nothing
//@   ensures result == (a[0] == 1 && a[1] == 0 && a[2] == 0 && a[3] == 0 && a[4] == 0)

//@ func IsAtMost128bitsVartime(a)
//@   requires limbs56(*a)
//@   modifies nothing
//@   ensures result == (sval(*a) < 1<<128)

//@ config limbs64
//@ func ContractWindow4(r, in)
//@   ct
//@   requires canon(*in) && in[4] < 1<<31
//@   modifies *r
//@   loop#3 assert 0 <= r[i] && r[i] + carry <= 16 && 0 <= carry
//@   loop#3 name carry, r[i]
//@   ensures forall(i, 0, 63, -8 <= r[i] && r[i] < 8)
//@   ensures 0 <= r[63] && r[63] <= 8
//@   ensures sum(i, 0, 64, r[i] * pow2(4*i)) == sval(old(*in))

//@ spec pval(x, n) = x[0] + ite(n >= 1, x[1]<<56, 0) + ite(n >= 2, x[2]<<112, 0) + ite(n >= 3, x[3]<<168, 0) + ite(n >= 4, x[4]<<224, 0)

//@ func SubVartime(out, a, b, limbSize)
//@   alias out==a
//@   requires 0 <= limbSize && limbSize <= 4 && limbs56(*a) && limbs56(*b) && pval(*a, limbSize) >= pval(*b, limbSize)
//@   modifies *out
//@   ensures pval(*out, limbSize) == pval(old(*a), limbSize) - pval(old(*b), limbSize)
//@   ensures forall(i, 0, 5, i <= limbSize ==> out[i] < 1<<56)
//@   ensures forall(i, 0, 5, i > limbSize ==> out[i] == old(out[i]))

//@ func LessThanVartime(a, b, limbSize)
//@   alias a==b
//@   requires 0 <= limbSize && limbSize <= 4 && limbs56(*a) && limbs56(*b)
//@   modifies nothing
//@   ensures result == (pval(*a, limbSize) < pval(*b, limbSize))

//@ func LessThanOrEqualVartime(a, b, limbSize)
//@   alias a==b
//@   requires 0 <= limbSize && limbSize <= 4 && limbs56(*a) && limbs56(*b)
//@   modifies nothing
//@   ensures result == (pval(*a, limbSize) <= pval(*b, limbSize))


// ===================================================================

// Sliding-window recoding. Proved of the body: the bit expansion (cut at loop#4),
// memory safety and the frame. The digit property of the second phase is NOT
// proved (nested data-dependent loops); it is an explicit assumption for callers.
//@ func ContractSlidingWindow(r, s, windowSize)
//@   requires canon(*s) && (windowSize == 5 || windowSize == 7)
//@   modifies *r
//@   cut at loop#4 havoc *r : forall(k, 0, 256, 0 <= r[k] && r[k] <= 1) && sum(k, 0, 256, r[k] * pow2(k)) == sval(old(*s))
//@   loop#4 modifies j, *r
//@   loop#4 invariant 0 <= j && j <= 256
//@   loop#5 modifies b, *r
//@   loop#5 invariant 1 <= b && b <= 7
//@   loop#6 modifies k, *r
//@   loop#6 invariant j + b <= k && k <= 256
//@   assume-ensures forallq(k, 0, 256, r[k] == 0 || (r[k] % 2 == 1 && 0 - pow2(windowSize - 1) < r[k] && r[k] < pow2(windowSize - 1)))
//@   assume-ensures sval(old(*s)) < 1<<253 ==> sum(k, 0, 256, r[k] * pow2(k)) == sval(old(*s))

// 32-bit layout: 9 limbs of 30 bits
// ===================================================================

//@ config limbs32
//@ spec sval(x) = x[0] + x[1]<<30 + x[2]<<60 + x[3]<<90 + x[4]<<120 + x[5]<<150 + x[6]<<180 + x[7]<<210 + x[8]<<240
//@ spec limbs56(x) = x[0] < 1<<30 && x[1] < 1<<30 && x[2] < 1<<30 && x[3] < 1<<30 && x[4] < 1<<30 && x[5] < 1<<30 && x[6] < 1<<30 && x[7] < 1<<30 && x[8] < 1<<30
//@ spec canon(x) = x[0] < 1<<30 && x[1] < 1<<30 && x[2] < 1<<30 && x[3] < 1<<30 && x[4] < 1<<30 && x[5] < 1<<30 && x[6] < 1<<30 && x[7] < 1<<30 && x[8] < 1<<16
//@ spec reduced(x) = canon(x) && sval(x) < L
//@ spec low8(x) = x[0] + x[1]<<30 + x[2]<<60 + x[3]<<90 + x[4]<<120 + x[5]<<150 + x[6]<<180 + x[7]<<210

//@ func ltModM(a, b)
//@   ct-only
//@   ct
//@ func reduce(r)
//@   ct
//@   requires limbs56(*r)
//@   modifies *r
//@   ensures limbs56(*r)
//@   ensures sval(*r) == ite(sval(old(*r)) >= L, sval(old(*r)) - L, sval(old(*r)))

//@ func (*Bignum256).Reset(r)
//@   ct
//@   modifies *r
//@   ensures forall(i, 0, 9, r[i] == 0)

//@ func Add(r, x, y)
//@   ct
//@   alias r==x | r==y | x==y | r==x==y
//@   requires reduced(*x) && reduced(*y)
//@   modifies *r
//@   ensures reduced(*r)
//@   ensures cong(sval(*r), sval(old(*x)) + sval(old(*y)), L)

//@ func barrettReduce(r, q1, r1)
//@   ct
//@   alias r==r1
//@   requires limbs56(*q1) && q1[8] < 1<<24 && limbs56(*r1) && r1[8] < 1<<24
//@   requires q1[0] % (1<<16) == r1[8] >> 8
//@   modifies *r
//@   cut after store q3 havoc q3 : limbs56(q3) && (sval(q3) << 264) <= MU * sval(*q1) && MU * sval(*q1) < (sval(q3) << 264) + (1<<264) + (1<<245)
//@   cut after store r2 havoc r2 : limbs56(r2) && r2[8] < 1<<24 && cong(sval(r2), sval(q3) * L, 1<<264)
//@   cut before call reduce#1 havoc *r : limbs56(*r) && r[8] < 1<<24 && cong(sval(*r) + sval(r2), sval(old(*r1)), 1<<264)
//@   cut before call reduce#1 havoc : cong(sval(*r), (sval(old(*q1)) << 248) + low8(old(*r1)) + (old(r1[8]) % (1<<8))<<240 - sval(q3) * L, 1<<264)
//@   cut before call reduce#1 havoc : 0 <= (sval(old(*q1)) << 248) + low8(old(*r1)) + (old(r1[8]) % (1<<8))<<240 - sval(q3) * L && (sval(old(*q1)) << 248) + low8(old(*r1)) + (old(r1[8]) % (1<<8))<<240 - sval(q3) * L < 3*L
//@   cut before call reduce#1 havoc : sval(*r) == (sval(old(*q1)) << 248) + low8(old(*r1)) + (old(r1[8]) % (1<<8))<<240 - sval(q3) * L && sval(*r) < 3*L
//@   ensures reduced(*r)
//@   ensures cong(sval(*r), (sval(old(*q1)) << 248) + low8(old(*r1)) + (old(r1[8]) % (1<<8))<<240, L)

// Note: on this layout q1[8] keeps only 22 of the 24 top bits of x*y, so the
// function is exact only for x*y < 2^510; every caller passes a reduced x.
//@ func Mul(r, x, y)
//@   ct
//@   alias r==x | r==y | x==y | r==x==y
//@   requires canon(*x) && canon(*y) && x[8] < 1<<13
//@   modifies *r
//@   ensures reduced(*r)
//@   ensures cong(sval(*r), sval(old(*x)) * sval(old(*y)), L)

//@ func Expand(out, in)
//@   ct
//@   requires len(in) <= 64
//@   modifies *out
//@   ensures canon(*out)
//@   ensures len(in) >= 32 ==> reduced(*out)
//@   ensures len(in) == 64 ==> cong(sval(*out), le(in[0:64]), L)
//@   ensures len(in) == 32 ==> cong(sval(*out), le(in[0:32]), L)
//@   ensures len(in) == 16 ==> sval(*out) == le(in[0:16])
//@   ensures len(in) == 64 ==> sval(*out) == le(in[0:64]) % L
//@   ensures len(in) == 32 ==> sval(*out) == le(in[0:32]) % L

//@ func ExpandRaw(out, in)
//@   ct
//@   requires len(in) >= 32
//@   modifies *out
//@   ensures canon(*out)
//@   ensures sval(*out) == le(in[0:32])

//@ func Contract(out, in)
//@   ct
//@   requires len(out) >= 32 && canon(*in)
//@   modifies out[0:32]
//@   ensures le(out[0:32]) == sval(old(*in))

//@ func IsZeroVartime(a)
//@   modifies nothing
//@   ensures result == forall(i, 0, 9, a[i] == 0)

//@ func IsOneVartime(a)
//@   modifies nothing
//@   ensures result == (a[0] == 1 && forall(i, 1, 9, a[i] == 0))

//@ func IsAtMost128bitsVartime(a)
//@   requires limbs56(*a)
//@   modifies nothing
//@   ensures result == (sval(*a) < 1<<128)

//@ func ContractWindow4(r, in)
//@   ct
//@   requires canon(*in) && in[8] < 1<<15
//@   modifies *r
//@   loop#4 assert 0 <= r[i] && r[i] + carry <= 16 && 0 <= carry
//@   loop#4 name carry, r[i]
//@   ensures forall(i, 0, 63, -8 <= r[i] && r[i] < 8)
//@   ensures 0 <= r[63] && r[63] <= 8
//@   ensures sum(i, 0, 64, r[i] * pow2(4*i)) == sval(old(*in))

//@ spec pval(x, n) = x[0] + ite(n >= 1, x[1]<<30, 0) + ite(n >= 2, x[2]<<60, 0) + ite(n >= 3, x[3]<<90, 0) + ite(n >= 4, x[4]<<120, 0) + ite(n >= 5, x[5]<<150, 0) + ite(n >= 6, x[6]<<180, 0) + ite(n >= 7, x[7]<<210, 0) + ite(n >= 8, x[8]<<240, 0)

//@ func SubVartime(out, a, b, limbSize)
//@   alias out==a
//@   requires 0 <= limbSize && limbSize <= 8 && limbs56(*a) && limbs56(*b) && pval(*a, limbSize) >= pval(*b, limbSize)
//@   modifies *out
//@   ensures pval(*out, limbSize) == pval(old(*a), limbSize) - pval(old(*b), limbSize)
//@   ensures forall(i, 0, 9, i <= limbSize ==> out[i] < 1<<30)
//@   ensures forall(i, 0, 9, i > limbSize ==> out[i] == old(out[i]))

//@ func LessThanVartime(a, b, limbSize)
//@   alias a==b
//@   requires 0 <= limbSize && limbSize <= 8 && limbs56(*a) && limbs56(*b)
//@   modifies nothing
//@   ensures result == (pval(*a, limbSize) < pval(*b, limbSize))

//@ func LessThanOrEqualVartime(a, b, limbSize)
//@   alias a==b
//@   requires 0 <= limbSize && limbSize <= 8 && limbs56(*a) && limbs56(*b)
//@   modifies nothing
//@   ensures result == (pval(*a, limbSize) <= pval(*b, limbSize))

// Sliding-window recoding. Proved of the body: the bit expansion (cut at loop#4),
// memory safety and the frame. The digit property of the second phase is NOT
// proved (nested data-dependent loops); it is an explicit assumption for callers.
//@ func ContractSlidingWindow(r, s, windowSize)
//@   requires canon(*s) && (windowSize == 5 || windowSize == 7)
//@   modifies *r
//@   cut at loop#4 havoc *r : forall(k, 0, 256, 0 <= r[k] && r[k] <= 1) && sum(k, 0, 256, r[k] * pow2(k)) == sval(old(*s))
//@   loop#4 modifies j, *r
//@   loop#4 invariant 0 <= j && j <= 256
//@   loop#5 modifies b, *r
//@   loop#5 invariant 1 <= b && b <= 7
//@   loop#6 modifies k, *r
//@   loop#6 invariant j + b <= k && k <= 256
//@   assume-ensures forallq(k, 0, 256, r[k] == 0 || (r[k] % 2 == 1 && 0 - pow2(windowSize - 1) < r[k] && r[k] < pow2(windowSize - 1)))
//@   assume-ensures sval(old(*s)) < 1<<253 ==> sum(k, 0, 256, r[k] * pow2(k)) == sval(old(*s))
