//go:build verif

// Contracts for package x25519.
// Comment-only file; the //@ lines are read by /verif/govc.

package x25519

//@ config any
// Montgomery u-coordinate of an Edwards point: (1+y)/(1-y), 0 when y = 1  [M5 relates it to RFC 7748]
//@ ufun montu(Pt) Int
//@ spec clampv(x) = x % (1<<254) - x % 8 + (1<<254)

// ScalarMult is golang.org/x/crypto's X25519 (assumed = RFC 7748), writing only dst.
//@ func ScalarMult(dst, in, base)
//@   ct
//@   modifies *dst
//@   ensures le(*dst) == x25519(le(old(*in)), le(old(*base)))

// Base-point path: dst = u([clamp(in)]B), computed on the Edwards curve
//@ func ScalarBaseMult(dst, in)
//@   ct
//@   alias dst==in
//@   modifies *dst
//@   ensures le(*dst) < P
//@   assume-ensures le(*dst) == montu(mulB(clampv(le(old(*in)))))

//@ func checkBasepoint()
//@   panics maybe
//@   modifies nothing

//@ func EdPrivateKeyToX25519(privateKey)
//@   ct
//@   requires len(privateKey) >= 32
//@   modifies nothing
//@   ensures len(result) == 32 && fresh(result)
//@   ensures le(result[0:32]) == clampv(lea(sha512(bytesOf(privateKey[0:32])), 0, 32))

//@ func edwardsToMontgomeryX(outX, y)
//@   requires mag(*y, CANON)
//@   modifies *outX
//@   ensures mag(*outX, RED)
//@   ensures cong(fval(*outX), (1 + fval(*y)) * pow(1 - fval(*y), P - 2), P)

//@ func EdPublicKeyToX25519(publicKey)
//@   requires len(publicKey) >= 32
//@   modifies nothing
//@   ensures result1 == decodable(bytesOf(publicKey[0:32]))
//@   ensures !result1 ==> result0 == nil
//@   ensures result1 ==> (len(result0) == 32 && fresh(result0) && le(result0[0:32]) < P)
//@   ensures result1 ==> le(result0[0:32]) == ((1 + le(publicKey[0:32]) % (1<<255)) * pow(1 - le(publicKey[0:32]) % (1<<255), P - 2)) % P

// X25519(scalar, point): error exactly for a wrong length or (generic path) an all-zero result.
// When point is the exported Basepoint slice the Edwards fast path is taken.
//@ func x25519(dst, scalar, point)
//@   slicebind point = Basepoint
//@   panics maybe
//@   modifies *dst
//@   ensures (len(scalar) != 32 || len(point) != 32) ==> result1 != nil
//@   ensures result1 != nil ==> result0 == nil
//@   ensures result1 == nil ==> (len(result0) == 32 && bytesOf(result0[0:32]) == bytesOf(dst[0:32]))
//@   ensures (len(scalar) == 32 && len(point) == 32 && !sameslice(point, Basepoint)) ==> ((result1 != nil) == (x25519(le(scalar[0:32]), le(point[0:32])) == 0))
//@   ensures (result1 == nil && !sameslice(point, Basepoint)) ==> le(result0[0:32]) == x25519(le(scalar[0:32]), le(point[0:32]))
//@   ensures (len(scalar) == 32 && len(point) == 32 && sameslice(point, Basepoint)) ==> (result1 == nil && le(result0[0:32]) == montu(mulB(clampv(le(scalar[0:32])))))

//@ func X25519(scalar, point)
//@   inline x25519
//@   slicebind point = Basepoint
//@   panics maybe
//@   modifies nothing
//@   ensures (len(scalar) != 32 || len(point) != 32) ==> result1 != nil
//@   ensures result1 != nil ==> result0 == nil
//@   ensures result1 == nil ==> (len(result0) == 32 && fresh(result0))
//@   ensures (len(scalar) == 32 && len(point) == 32 && !sameslice(point, Basepoint)) ==> ((result1 != nil) == (x25519(le(scalar[0:32]), le(point[0:32])) == 0))
//@   ensures (result1 == nil && !sameslice(point, Basepoint)) ==> le(result0[0:32]) == x25519(le(scalar[0:32]), le(point[0:32]))
//@   ensures (len(scalar) == 32 && len(point) == 32 && sameslice(point, Basepoint)) ==> (result1 == nil && le(result0[0:32]) == montu(mulB(clampv(le(scalar[0:32])))))
