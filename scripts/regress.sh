#!/bin/sh
# development helper: run every contract of every package under the given configurations
export GOFLAGS=-mod=mod GOPROXY=off GOSUMDB=off GOTOOLCHAIN=local
for c in ${1:-default force32bit}; do
  for p in curve25519 modm ge25519 ed25519 x25519; do
    echo "== $p [$c]"
    timeout 1500 /verif/bin/govc verify -pkg $p -config $c -timeout 60s 2>&1 | grep "^undecided\|^failed\|^ERROR\|^UNDEC\|^oblig" | cut -c1-220
  done
done
