#!/usr/bin/env python3
# Builds /verif/seeded/RESULTS.md from seeded/results/*.txt (written by sweep_seeded.sh) and the meta.json files.
import glob, json, os, re
rows = {}
for f in sorted(glob.glob('/verif/seeded/results/*.txt')):
    line = open(f).read().strip()
    m = re.match(r'(C\d+)/(\w+) check=(C\d+) (.*)', line)
    if not m: continue
    pid, name, chk, rest = m.groups()
    rows.setdefault((pid, name), []).append((chk, rest))
out = ["# Seeded changes and which checks catch them", "",
       "Produced by `scripts/sweep_seeded.sh` (each change applied to a scratch worktree of /repo, the quick check(s) run, the tree restored) and `scripts/seeded_table.py`.",
       "`caught` = the check exits 1 with at least one VIOLATION line; `UNDECIDED` = exit 2 (the change uses a construct outside the modelled subset: no verdict); `missed` = exit 0.", "",
       "| change | what it does (one line) | check | verdict | first failing obligation |", "|---|---|---|---|---|"]
tot = caught = 0
for (pid, name), lst in sorted(rows.items()):
    what = ''
    try:
        rd = open('/verif/seeded/%s/%s/README.md' % (pid, name)).read().splitlines()
        what = next((l.strip('# ').strip() for l in rd if l.strip()), '')[:110]
    except Exception: pass
    anycaught = False
    for chk, rest in lst:
        if 'not-built' in rest:
            verdict, first = 'check not built', ''
        else:
            ex = re.search(r'exit=(\d+)', rest).group(1)
            first = re.search(r'first=\[(.*?)\]', rest).group(1)
            verdict = {'1': 'caught', '0': 'missed', '2': 'UNDECIDED'}.get(ex, 'exit ' + ex)
            if ex == '1': anycaught = True
        out.append('| %s/%s | %s | %s | %s | %s |' % (pid, name, what.replace('|', '/'), chk, verdict, first.replace('|', '/')[:90]))
        what = ''
    tot += 1; caught += anycaught
out += ["", "%d of %d seeded changes are caught by at least one check." % (caught, tot)]
open('/verif/seeded/RESULTS.md', 'w').write('\n'.join(out) + '\n')
print(out[-1])
