#!/bin/sh
# usage: confirm_seeded.sh <src dir with patch.diff demo_test.go README.md> <property id> <name>
# Confirms a seeded change in a scratch worktree of /repo (never in /repo itself):
#  - the patch applies to the current HEAD, builds, and the unedited test suite passes with it
#  - the demonstration test passes on the pristine tree and fails with the change applied
# and stores it under /verif/seeded/<id>/<name>/ with meta.json.
export GOFLAGS=-mod=mod GOPROXY=off GOSUMDB=off GOTOOLCHAIN=local
src=$1; id=$2; name=$3
wt=/tmp/sw-$id-$name
git -C /repo worktree remove --force $wt 2>/dev/null
git -C /repo worktree add -q --detach $wt HEAD || exit 2
pkg=$(grep -m1 '^package ' $src/demo_test.go | awk '{print $2}')
case $pkg in
  ed25519) dir=. ;;
  x25519) dir=extra/x25519 ;;
  curve25519|modm|ge25519) dir=internal/$pkg ;;
  *) dir=. ;;
esac
run="^($(grep -o "^func Test[A-Za-z0-9_]*" $src/demo_test.go | sed 's/func //' | paste -sd'|'))\$"
guard=$(grep -m1 '^// +build ' $src/demo_test.go | awk '{print $3}')
res_pristine=""; res_mut=""; tagsfail=""
cp $src/demo_test.go $wt/$dir/zz_seeded_demo_test.go
for tags in "$guard" "$guard,force32bit" "$guard,noasm" $MORE_TAGS; do
  (cd $wt/$dir && go test -vet=off -count=1 $EXTRA_TEST_FLAGS -tags "$tags" -run "$run" . >/tmp/sw-out-p 2>&1) && res_pristine="$res_pristine pass[$tags]" || res_pristine="$res_pristine FAIL[$tags]"
done
rm $wt/$dir/zz_seeded_demo_test.go
applies=yes
git -C $wt apply $src/patch.diff || applies=no
suite=skipped
if [ $applies = yes ]; then
  (cd $wt && go build ./... && go test -vet=off -count=1 ./... >/tmp/sw-out-s 2>&1) && suite=pass || suite=FAIL
  cp $src/demo_test.go $wt/$dir/zz_seeded_demo_test.go
  for tags in "$guard" "$guard,force32bit" "$guard,noasm" $MORE_TAGS; do
    (cd $wt/$dir && go test -vet=off -count=1 $EXTRA_TEST_FLAGS -tags "$tags" -run "$run" . >/tmp/sw-out-m 2>&1) && res_mut="$res_mut pass[$tags]" || { res_mut="$res_mut FAIL[$tags]"; tagsfail="$tagsfail,$tags"; cp /tmp/sw-out-m /tmp/sw-out-mfail; }
  done
fi
git -C /repo worktree remove --force $wt
echo "$id/$name: applies=$applies suite=$suite pristine:$res_pristine mutated:$res_mut"
dst=/verif/seeded/$id/$name
mkdir -p $dst
cp $src/patch.diff $src/demo_test.go $dst/
[ -f $src/README.md ] && cp $src/README.md $dst/
python3 - "$dst" "$id" "$name" "$applies" "$suite" "$res_pristine" "$res_mut" "$dir" "$run" <<'PY'
import json,sys,subprocess
dst,id,name,applies,suite,rp,rm,dir,run=sys.argv[1:]
files=[l[6:] for l in open(dst+'/patch.diff') if l.startswith('+++ b/')]
head=subprocess.run(['git','-C','/repo','rev-parse','HEAD'],capture_output=True,text=True).stdout.strip()
out=''
try: out=open('/tmp/sw-out-mfail').read()[-1500:]
except Exception: pass
json.dump({"property":id,"name":name,"files":[f.strip() for f in files],"confirmed_against_repo_commit":head,
 "patch_applies":applies=="yes","existing_suite_with_change":suite,
 "demo":{"file":"demo_test.go","place_in":dir,"run":"go test -vet=off -count=1 [-tags T] -run '%s' ."%run,
         "pristine":rp.strip(),"with_change":rm.strip(),"failure_output_tail":out},
 "origin":"produced by a fresh sub-agent given only the property text and a scratch worktree; confirmed by scripts/confirm_seeded.sh"},
 open(dst+'/meta.json','w'),indent=1)
PY
rm -f /tmp/sw-out-mfail
