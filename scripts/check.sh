#!/bin/sh
# entry point of every check: /verif/bin/check <Cxx> [--tier quick|thorough] [--replay file]
export GOFLAGS=-mod=mod GOPROXY=off GOSUMDB=off GOTOOLCHAIN=local
DIR=$(dirname "$(readlink -f "$0")")
if [ ! -x "$DIR/govc" ]; then
  (cd "$DIR/../govc" && GOFLAGS=-mod=vendor go build -o "$DIR/govc" .) || exit 2
fi
exec "$DIR/govc" check "$@"
