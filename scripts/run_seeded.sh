#!/bin/sh
# usage: run_seeded.sh [<id>/<name> ...]   (default: every seeded change)
# Applies each seeded change to /repo, runs the property's quick check (and any extra checks named
# in EXTRA="Cxx Cyy"), records the verdict, and restores /repo straight afterwards.
cd /verif
list="$@"
[ -z "$list" ] && list=$(cd seeded && ls -d C*/* | sort)
for d in $list; do
  id=${d%/*}
  if ! git -C /repo diff --quiet; then echo "refusing: /repo has local changes"; exit 2; fi
  git -C /repo apply /verif/seeded/$d/patch.diff || { echo "$d: patch does not apply"; continue; }
  for c in $id $EXTRA; do
    grep -q "\"$c\":" govc/props.go || { echo "$d: check $c not built"; continue; }
    t0=$(date +%s)
    out=$(timeout 1800 bin/check $c --tier quick 2>&1); rc=$?
    t1=$(date +%s)
    v=$(echo "$out" | grep -c '^VIOLATION')
    first=$(echo "$out" | grep -m1 '^VIOLATION' | sed 's/.*obligation=//')
    und=$(echo "$out" | grep -m1 '^UNDECIDED' | cut -c1-160)
    echo "$d check=$c exit=$rc violations=$v time=$((t1-t0))s first=[$first] $und"
  done
  git -C /repo checkout -- .
done
