#!/bin/sh
# copies the mirror contract files into /repo (comment-only files behind build tag `verif`)
set -e
cp /verif/contracts/internal_curve25519.go /repo/internal/curve25519/verif_contracts.go
[ -f /verif/contracts/internal_modm.go ] && cp /verif/contracts/internal_modm.go /repo/internal/modm/verif_contracts.go
[ -f /verif/contracts/internal_ge25519.go ] && cp /verif/contracts/internal_ge25519.go /repo/internal/ge25519/verif_contracts.go
[ -f /verif/contracts/ed25519.go ] && cp /verif/contracts/ed25519.go /repo/verif_contracts.go
[ -f /verif/contracts/extra_x25519.go ] && cp /verif/contracts/extra_x25519.go /repo/extra/x25519/verif_contracts.go
exit 0
