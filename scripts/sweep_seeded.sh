#!/bin/sh
# usage: sweep_seeded.sh [<id>/<name> ...]   (default: every seeded change)
# Like run_seeded.sh, but works on a scratch worktree of /repo (so /repo stays untouched and usable
# while the sweep runs). For each seeded change: apply it to the scratch tree, run the quick check of
# its own property (plus EXTRA="Cxx ..." and the checks listed in seeded/<id>/<name>/also), record
# the verdict in seeded/results/<id>_<name>.txt, restore the scratch tree.
cd /verif
export GOVC_MEMODIR=/verif
wt=/tmp/sweep-repo
git -C /repo worktree remove --force $wt 2>/dev/null
git -C /repo worktree add -q --detach $wt HEAD || exit 2
mkdir -p seeded/results
list="$@"
[ -z "$list" ] && list=$(cd seeded && ls -d C*/* | sort)
for d in $list; do
  id=${d%/*}
  git -C $wt checkout -q -- . ; git -C $wt clean -fdq
  git -C $wt apply /verif/seeded/$d/patch.diff || { echo "$d: patch does not apply"; continue; }
  also=""; [ -f seeded/$d/also ] && also=$(cat seeded/$d/also)
  for c in $id $EXTRA $also; do
    grep -q "\"$c\":" govc/props.go || { echo "$d check=$c not-built" | tee seeded/results/$(echo $d | tr / _)_$c.txt; continue; }
    t0=$(date +%s)
    out=$(timeout 2400 bin/govc check $c --tier quick --repo $wt --verif /tmp/sweep-verif 2>&1); rc=$?
    t1=$(date +%s)
    v=$(echo "$out" | grep -c '^VIOLATION')
    first=$(echo "$out" | grep -m1 '^VIOLATION' | sed 's/.*obligation=//')
    und=$(echo "$out" | grep -m1 '^UNDECIDED' | cut -c1-200)
    echo "$d check=$c exit=$rc violations=$v time=$((t1-t0))s first=[$first] $und" | tee seeded/results/$(echo $d | tr / _)_$c.txt
  done
done
git -C /repo worktree remove --force $wt
