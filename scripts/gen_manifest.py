#!/usr/bin/env python3
# Regenerates /verif/MANIFEST.json from the table below (kept in sync with govc/props.go).
import json, subprocess, os

TECH = "contract-based deductive verification of the real Go code: VCs generated from go/ssa of /repo (govc), contracts in //@ comment files, obligations discharged by z3 4.8.12 / z3 5.1.0 / cvc5 1.0.3 and an exact polynomial normaliser"

claimed = {
 "C04": dict(
   text="scMinimal is verified against the contract result == (S < L) for all 2^256 byte strings on the real code (the comparison loop runs with a concrete counter); a counterexample is replayed on the real function. The pinned tree violated it for every S in [2^252, L) (repaired by a fix: commit, see known_findings.json). That single, batch, default and ZIP-215 verification consult this function before accepting is part of the verify/VerifyBatch contracts (C01/C06).",
   note="Trusted: go/ssa, govc, solvers. Uniqueness of the accepted S follows from S < L and the verification equation with M4 (L prime order); it is not a separate machine-checked lemma.",
   ref="DESIGN.md §6 C04, §7 F1"),
 "C19": dict(
   text="Every function of internal/modm (both limb layouts) is verified against a functional contract: reduce, Barrett reduction (with in-function cuts: quotient estimate bounds, q3*L mod 2^264, borrow chain, Barrett bound), Add, Mul, Expand (16/32/64 bytes), ExpandRaw, Contract, the signed radix-16 recoding (digit ranges and exact weighted sum), the bit expansion of the sliding-window recoding, and the vartime comparison/subtraction helpers, for all inputs inside the stated limb bounds. Proof level, no input bound.",
   note="Trusted: go/ssa, govc, solvers. The second phase of ContractSlidingWindow (digit property) is NOT proved and is carried as an explicit assumption; 32-bit Mul is specified for a reduced first operand (see evidence assumptions); termination not proved.",
   ref="DESIGN.md §5.2, §6 C19"),
 "C18": dict(
   text="Every function of internal/curve25519 (both limb layouts) is verified against a functional contract for all limb vectors inside its magnitude class: result congruent to the mathematical operation mod 2^255-19, output magnitude class, no unintended wrap (each dropped wrap is a discharged side condition), canonical serialisation for every representation, parsing ignores bit 255, conditional swap exact; inversion and the (p-5)/8 power by exponent tracking. Proof level, no input bound.",
   note="Trusted: go/ssa, govc, the solvers; exponent law for repeated squaring (M0); termination not proved; call sites must establish the magnitude classes (checked where the callers are under contract).",
   ref="DESIGN.md §5.1, §6 C18"),
}

not_applicable = {
}

props = [json.loads(l) for l in open('/verif/properties.jsonl')]
checks = []
na = []
for p in props:
    i = p['id']
    if i in claimed:
        c = claimed[i]
        checks.append({
          "property_id": i,
          "quick_cmd": "bin/check %s --tier quick" % i,
          "thorough_cmd": "bin/check %s --tier thorough" % i,
          "evidence_file": "/verif/evidence/%s.json" % i,
          "replay_cmd_template": "bin/check %s --replay {path}" % i,
          "engine": "govc",
          "level_claimed": {"category": "proof", "text": c['text'], "design_ref": c['ref']},
          "level_note": c['note'],
          "technique": TECH,
        })
    else:
        na.append({"property_id": i, "reason": not_applicable.get(i, "not claimed yet: the contracts for this property's cone are still being brought under the verifier (see DESIGN.md §10 build order); no other technique is substituted")})

src = []
try:
    out = subprocess.run(['git','-C','/repo','log','--format=%H %s'],capture_output=True,text=True).stdout
    for l in out.splitlines():
        h, s = l.split(' ',1)
        if s.startswith('verif:'):
            src.append(h)
except Exception:
    pass

m = {
 "version": 1,
 "setup_cmd": "cd /verif/govc && GOFLAGS=-mod=vendor GOPROXY=off GOSUMDB=off GOTOOLCHAIN=local go build -o /verif/bin/govc . && cp /verif/scripts/check.sh /verif/bin/check && chmod +x /verif/bin/check",
 "hooks": {
   "guard": "verif",
   "enable": "go build tag `verif` (govc loads /repo with -tags=verif[,<config tags>]); the guarded files are comment-only contract files verif_contracts.go, one per package",
   "baseline_off_cmd": "cd /repo && GOFLAGS=-mod=mod GOPROXY=off GOSUMDB=off GOTOOLCHAIN=local go test -vet=off -count=1 ./...",
   "source_commits": src,
   "add_only": True,
 },
 "engines": [{"name": "govc", "path": "/verif/govc", "serves_properties": sorted(claimed.keys()), "kind_free_text": "verification-condition generator for Go (go/packages + go/ssa) with SMT and polynomial-normaliser back ends; contracts are //@ comment lines"}],
 "checks": checks,
 "not_applicable": na,
 "notes": "Exit codes of bin/check: 0 all obligations of the property's cone discharged; 1 with VIOLATION lines when an obligation fails; 2 with UNDECIDED lines (no VIOLATION) when the contracts no longer attach to the code (renamed function/parameter/local, construct outside the supported subset).",
}
json.dump(m, open('/verif/MANIFEST.json','w'), indent=1)
print("claimed:", sorted(claimed.keys()), "not claimed:", len(na))
