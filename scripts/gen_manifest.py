#!/usr/bin/env python3
# Regenerates /verif/MANIFEST.json from the table below (kept in sync with govc/props.go).
import json, subprocess, os

TECH = "contract-based deductive verification of the real Go code: VCs generated from go/ssa of /repo (govc), contracts in //@ comment files, obligations discharged by z3 4.8.12 / z3 5.1.0 / cvc5 1.0.3 and an exact polynomial normaliser"

claimed = {
 "C03": dict(
   text="A lemma over the contracts, checked like any caller against its callees: the function verifRoundTrip (build tag verif; derive the key from a seed, sign with any variant/context, verify in either mode) is verified to return true for every seed, message, variant, context and mode, using only the contracts of NewKeyFromSeed, sign and verify (themselves verified against RFC 8032 resp. the documented predicate, C02/C01). On the way it proves that S < L, that the public key and R decode, and that neither is of small order. Membership in a batch at any position and size follows from G1 of VerifyBatch's contract (an entry single verification accepts is never reported false, C06). The cones of C01, C02 and C06 are part of this check, so a code change that breaks either side fails here too.",
   note="Assumed (named in the evidence): the group/number-theoretic axioms the lemma uses (encoding round trip, B has order exactly L, arithmetic of multiples of B, two small arithmetic facts about L), the property's own excluded case (nonce hash = 0 mod L), and everything C01/C02/C06 assume (bridge lemmas, sliding-window digit property, SHA-512 uninterpreted, trusted multi-scalar routine). The mapping from crypto.Signer options to (variant, context) is C07's.",
   ref="DESIGN.md §13.3, §13.6"),
 "C06": dict(
   text="VerifyBatch is verified, for every batch length (any n >= 0, any number of 64-entry chunks plus remainder, symbolic chunk size) and every mixture of entries, against a contract whose loop invariants hold at all nine loops: (G1) an entry that single verification (verifyWithOptionsNoPanic, itself verified against the documented predicate) accepts is never reported false, i.e. every entry reported false is one single verification rejects; (G2) the summary flag is exactly the conjunction of the per-entry results; the result vector is fresh with one element per entry; errors exactly for an over-long context, mismatched argument counts or a failing entropy source; (S1) a chunk is handed to the batch equation only after every entry of it passed every non-equation acceptance condition of single verification under the same options; entries decided by the fallback or the remainder loop carry single verification's verdict; (H) the challenge hashed for each batch entry is the one single verification hashes (same dom2 flag, context, R, A, M); no panic for any malformed entry. Quantified invariants are discharged with deterministic instantiation, skolemisation and a case split on the updated entry.",
   note="NOT proved, and named as assumptions in the evidence: the Bos-Coster multi-scalar multiplication and its heap (trusted contract, memory safety and magnitudes only), hence that the point tested is the randomised combination of the entries; and the probabilistic soundness of the batch equation (the 2^-120 clause, M7), which a deductive verifier cannot express. Consequently 'reported true => valid' for batch-accepted chunks is not established here, and a change that corrupts how the scalars/points of the batch path are combined (randomisers, products, negations) without touching the checks above is not detected.",
   ref="DESIGN.md §6 C06, §13"),
 "C08": dict(
   text="The contracts of every exported function of ed25519 (non-batch) and extra/x25519 are written once, configuration-independently, in terms of mathematical spec functions; the code of each build configuration (assembly selector, Go selector with the unsafe and with the subtle conditional move, 64- and 32-bit limbs, GOARCH=386 in the thorough tier) is verified against those same contracts together with every internal function it uses. Two configurations therefore return identical bytes for identical inputs. Quick tier: the five configurations that cover every compiled combination of selector x conditional move x limb width; thorough: all seven including a 32-bit target.",
   note="Identity is a corollary of each configuration meeting the same specification, not a pairwise comparison. Not covered: VerifyBatch (batch_verify.go is not under contract, so limb128bits is not examined). Results left to assumed postconditions (group result of DoubleScalarmultVartime, rejection direction of decoding, the assembly selector's functional contract) are equal across configurations only under those assumptions.",
   ref="DESIGN.md §6 C08, §13"),
 "C15": dict(
   text="Decided by frames instead of schedules: (1) every function under contract (all five packages, both limb layouts) has a write-frame obligation on each individual store, copy, library write and callee modifies clause: memory that existed before the call is written only inside the function's modifies clause, and the exported functions have `modifies nothing` (a transient write that is undone before returning is still reported); (2) one obligation per package-level variable: no function other than a package initialiser writes it, passes its address to a writer, or appends into its backing store (testBatchY is written only under testBatchSaveY, which nothing sets); (3) the module starts no goroutines; (4) results are fresh allocations. Hence concurrent calls on shared read-only inputs cannot race and each call is a function of its arguments and entropy stream.",
   note="Trusted: Go memory model; sha512/subtle/binary/rand/x-crypto functions are goroutine-safe and stateless. VerifyBatch is under contract (write frames apply); the heap routines and multiScalarmultVartime are trusted to write only the scratch heap they are handed: for them only parts (2) and (3) apply. A caller overwriting x25519.Basepoint is outside the property. No schedule or history is enumerated, so violations carry no failing input.",
   ref="DESIGN.md §6 C15, §13"),
 "C01": dict(
   text="verify / Verify / VerifyWithOptions are verified against one contract: result == vspec(A, M, sig, f, c, zip215), the documented predicate (lengths, S < L via scMinimal, decodability of A and R, small-order rejection in default mode only, and the cofactored group equation on the decoded points with h = SHA-512(dom2 || R || A || M) mod L). Every function between the API and the field arithmetic (ge25519, modm, curve25519; both limb layouts) is checked against its own contract, callers against callee contracts only. Proof level for all inputs; the group-theoretic reading of the leaf formulas is a named assumption (bridge lemmas); the double-base multiplication [S]B + [h](-A) is proved from its loop (Horner invariant) relative to the assumed digit property of the sliding-window recoding.",
   note="Trusted: go/ssa, govc, solvers; bridge lemmas B1-B12 (field formulas = group law/encoding), group axioms M2/M4, SHA-512 as a function (M6); the digit property of ContractSlidingWindow's second phase and Horner's rule (under which DoubleScalarmultVartime's result is proved); the rejection direction of point decoding (returns false => not decodable) is assumed (M3). Batch verification is not covered.",
   ref="DESIGN.md §6 C01, §11"),
 "C02": dict(
   text="NewKeyFromSeed, sign, Sign and PrivateKey.Sign are verified against RFC 8032 spec functions: public key = enc([clamp(SHA-512(seed)[0:32])]B), R = enc([r]B) with r = SHA-512(dom2 || prefix || M) mod L, S = (r + SHA-512(dom2 || R || A || M) * a) mod L written canonically, result a fresh 64-byte slice, a function of (key, message, variant, context) only. The fixed-base multiplication P3(r) == mulB(s) is proved from the table facts (validated by ground evaluation against an executable curve specification) and the addition/doubling contracts. Both limb layouts; proof level, no input bound.",
   note="Trusted: go/ssa, govc, solvers; bridge lemmas B1-B12, group axioms (GADD/GDBL instantiated on ground terms), SHA-512 as an uninterpreted function; under the default amd64 configuration the assembly table lookup has an assumed contract (noasm/force32bit verify the Go lookup).",
   ref="DESIGN.md §6 C02, §11"),
 "C05": dict(
   text="The single contract result == vspec(.., zip215) of verify (see C01) makes the relation between the two modes explicit: the ZIP-215 instance differs from the default instance only in the small-order conjunct, so default-accept implies ZIP-215-accept and the two can differ only when A or R is one of the eight small-order encodings; that conjunct is itself verified (isSmallOrderVartime, C09). Checked on the real verify/VerifyWithOptions under both limb layouts.",
   note="As C01. The batch half of the property (VerifyBatch under ZIP-215) is not covered: VerifyBatch is not under a functional contract. The mode comparison is a propositional consequence of the contract, not a separate machine-checked lemma.",
   ref="DESIGN.md §6 C05"),
 "C07": dict(
   text="Options.unwrap, checkHash, the dom2 prefix writer and the four API entry points are verified against contracts that fix the variant/context table exactly: which (Hash, Context, message length) combinations are refused (and how: error, false, or panic), and that the hashed string is dom2(f, c) || R || A || M with the RFC 8032 encoding of (flag, len(c), c) for ctx/ph and no prefix for pure. Sign and verify share the spec function, so a signature checks only under the same (variant, context) up to SHA-512 collisions.",
   note="Trusted: go/ssa, govc, solvers; SHA-512 modelled as an uninterpreted function of its input bytes (collision resistance is M6, not proved). VerifyBatch's handling of options is not covered.",
   ref="DESIGN.md §6 C07"),
 "C09": dict(
   text="isSmallOrderVartime is verified to return exactly isneutral([8]P) computed by CofactorMultiply (three doublings) and IsNeutralVartime (x == 0 and y == z on canonical serialisations), and verify is verified to consult it for A and R in default mode only. Field-level results of the doubling formulas are proved on both limb layouts.",
   note="Trusted: bridge lemmas (doubling formula = group doubling; x = 0 and y = z characterises the identity) and M4 (exactly eight points of order dividing 8). Proof level for the code path; the count of small-order points is mathematics, not code.",
   ref="DESIGN.md §6 C09"),
 "C10": dict(
   text="UnpackNegativeVartime/UnpackVartime are verified (both limb layouts): on success y = le(p) mod 2^255 (bit 255 ignored, non-canonical y accepted as the value it has), z = 1, t = x*y, (d*y^2 + 1) * x^2 = y^2 - 1 (mod p), and the parity of canonical x is the requested sign bit (x = 0 accepted with either sign); Pack is verified to write the canonical y with the parity bit of canonical x. The exponentiation chain is proved by exponent tracking.",
   note="Trusted: go/ssa, govc, solvers, M0 (exponent law). NOT proved: the rejection direction (returns false => no square root exists; M3) - carried as an assumed postcondition `result == decodable(bytes)`.",
   ref="DESIGN.md §6 C10"),
 "C11": dict(
   text="The extra/x25519 package is under contract: ScalarBaseMult computes u = (Y+Z)/(Z-Y) of [clamp(k)]B via the verified fixed-base multiplication; X25519 takes the fast path exactly when the point slice IS x25519.Basepoint (same backing array, checked for 9), otherwise the generic ladder, refuses wrong lengths and the all-zero output; EdPrivateKeyToX25519 returns the clamped SHA-512 half. Verified on both limb layouts.",
   note="Trusted: golang.org/x/crypto/curve25519.ScalarMult implements RFC 7748 (external, modelled as an uninterpreted function); M5 (birational map: the Edwards result equals the ladder result) is mathematics and is assumed.",
   ref="DESIGN.md §6 C11"),
 "C12": dict(
   text="EdPublicKeyToX25519 is verified to return (1+y)/(1-y) mod p serialised canonically for the decoded y (y taken mod 2^255), to fail exactly when decoding fails, and EdPrivateKeyToX25519/NewKeyFromSeed/ScalarBaseMult are verified against spec functions using the same clamped scalar; the commutation statement follows from these contracts and dec(enc Q) = Q.",
   note="Trusted: M5 and the encoding round trip (bridge B11); the final commutation lemma is a consequence of the four contracts, stated in DESIGN.md, not machine-checked as one obligation.",
   ref="DESIGN.md §6 C12"),
 "C13": dict(
   text="For every function under contract in the five packages the generator emits an obligation for each index, slice, nil dereference, conversion and explicit panic, and a frame obligation for each store: the API functions panic only in the documented cases (contract clause `panics`), write only to locals or result memory (`modifies nothing`), and results are fresh allocations (`fresh(result)`). All discharged for all inputs on both limb layouts.",
   note="Trusted: go/ssa, govc, solvers; library panics are modelled. VerifyBatch is verified against a safety/frame contract (never panics for any batch length or malformed entry, modifies nothing, fresh result of length n) relative to a TRUSTED contract for multiScalarmultVartime and the heap routines (their bodies are not verified: memory safety of the Bos-Coster loop is assumed).",
   ref="DESIGN.md §6 C13"),
 "C14": dict(
   text="GenerateKey, NewKeyFromSeed, Public, Seed and both Equal methods are verified against contracts: one ReadFull of exactly 32 bytes from the chosen reader (crypto/rand.Reader when nil), error => (nil, nil, err), otherwise the key pair of that seed; priv[32:] is the public key; Seed/Public return fresh copies; Equal is true exactly for the same dynamic type, length and bytes.",
   note="Trusted: model of io.ReadFull; the lemma NewKeyFromSeed(k.Seed()) == k is a consequence of the contracts (determinism of NewKeyFromSeed as a function of the seed bytes).",
   ref="DESIGN.md §6 C14"),
 "C16": dict(
   text="ScalarmultBaseNiels is proved to return [s]B (P3(r) == mulB(sval s)) for every canonical scalar from: ContractWindow4's digit contract, the table-selection contract (544 concrete (pos, digit) cases of the Go selector decided against the ground-validated table), the niels addition and doubling contracts and ground instances of the group axioms. The 256 table entries, the sliding-window table and the curve constants are validated by exact evaluation against an executable Edwards-curve specification (obligations of kind `ground`). DoubleScalarmultVartime returns [s1]P + [s2]B: proved from its body relative to the sliding-window digit property.",
   note="DoubleScalarmultVartime: P3(r) == lc2(P, s1, s2) proved from the body via a Horner-form loop invariant, table lemmas by case analysis and the ground-validated sliding table. NOT proved: the digit property of ContractSlidingWindow's second phase (assumed) and Horner's rule (mathematics); the amd64 assembly selector has an assumed functional contract. Trusted: bridge lemmas, group axioms.",
   ref="DESIGN.md §6 C16"),
 "C20": dict(
   text="Every function reachable from NewKeyFromSeed, GenerateKey, sign/Sign/PrivateKey.Sign, PrivateKey.Equal/Seed/Public, x25519.ScalarBaseMult and EdPrivateKeyToX25519 carries a secrecy clause (ct); each body is checked against its own clause on go/ssa: no branch condition, index, slice bound, division, allocation size or variable-time callee depends on secret data, calls are checked against the callee's clause only, on four build configurations (assembly selector scanned mechanically: no jumps, fixed-offset memory operands). Found F2 (PrivateKey.Equal used bytes.Equal), repaired by a fix: commit.",
   note="Trusted: the compiler introduces no secret-dependent branches; ALU/SSE instruction latencies are data-independent; sha512/subtle/bits/binary and x/crypto ScalarMult are constant-time. Memory abstracted to one secrecy bit per allocation site (sound over-approximation). No input exists for a timing property: violations are reported with no-failing-input-found.",
   ref="DESIGN.md §6 C20, §7 F2"),
 "C04": dict(
   text="scMinimal is verified against the contract result == (S < L) for all 2^256 byte strings on the real code (the comparison loop runs with a concrete counter); a counterexample is replayed on the real function. The pinned tree violated it for every S in [2^252, L) (repaired by a fix: commit, see known_findings.json). The cone also contains its consumers: verify (S >= L => rejected, part of vspec), VerifyBatch (an entry with S >= L is reported false and never flips another entry: G1/G2 bookkeeping) and the scalar parsing modm.Expand/reduce/barrettReduce/Contract on both limb layouts (S is used as exactly the integer it encodes).",
   note="Trusted: go/ssa, govc, solvers. Uniqueness of the accepted S follows from S < L and the verification equation with M4 (L prime order); it is not a separate machine-checked lemma.",
   ref="DESIGN.md §6 C04, §7 F1"),
 "C19": dict(
   text="Every function of internal/modm (both limb layouts) is verified against a functional contract: reduce, Barrett reduction (with in-function cuts: quotient estimate bounds, q3*L mod 2^264, borrow chain, Barrett bound), Add, Mul, Expand (16/32/64 bytes), ExpandRaw, Contract, the signed radix-16 recoding (digit ranges and exact weighted sum), the bit expansion of the sliding-window recoding, and the vartime comparison/subtraction helpers, for all inputs inside the stated limb bounds. Proof level, no input bound.",
   note="Trusted: go/ssa, govc, solvers. The second phase of ContractSlidingWindow (digit property) is NOT proved and is carried as an explicit assumption; 32-bit Mul is specified for a reduced first operand (see evidence assumptions); termination not proved.",
   ref="DESIGN.md §5.2, §6 C19"),
 "C18": dict(
   text="Every function of internal/curve25519 (both limb layouts) is verified against a functional contract for all limb vectors inside its magnitude class: result congruent to the mathematical operation mod 2^255-19, output magnitude class, no unintended wrap (each dropped wrap is a discharged side condition), canonical serialisation for every representation, parsing ignores bit 255, conditional swap exact; inversion and the (p-5)/8 power by exponent tracking. Proof level, no input bound.",
   note="Trusted: go/ssa, govc, the solvers; exponent law for repeated squaring (M0); termination not proved; call sites must establish the magnitude classes (checked where the callers are under contract).",
   ref="DESIGN.md §5.1, §6 C18"),
}

not_applicable = {
 "C17": "not claimed: exactness of multiScalarmultVartime (sum of [s_i]P_i) needs the heap order/permutation invariants and a group-level loop invariant for the Bos-Coster loop, which are not built (the routine has only a trusted safety contract); the statement is also only true outside a degenerate case the property itself calls negligible (second-largest scalar reaching zero before the 128-bit scalars are inserted, DESIGN.md §6 C17), and 'negligible fraction of entropy streams' is not expressible as a contract.",
}

props = [json.loads(l) for l in open('/verif/properties.jsonl')]
checks = []
na = []
for p in props:
    i = p['id']
    if i in claimed:
        c = claimed[i]
        checks.append({
          "property_id": i,
          "quick_cmd": "bin/check %s --tier quick" % i,
          "thorough_cmd": "bin/check %s --tier thorough" % i,
          "evidence_file": "/verif/evidence/%s.json" % i,
          "replay_cmd_template": "bin/check %s --replay {path}" % i,
          "engine": "govc",
          "level_claimed": {"category": "proof", "text": c['text'], "design_ref": c['ref']},
          "level_note": c['note'],
          "technique": TECH,
        })
    else:
        na.append({"property_id": i, "reason": not_applicable.get(i, "not claimed yet: the contracts for this property's cone are still being brought under the verifier (see DESIGN.md §10 build order); no other technique is substituted")})

src = []
try:
    out = subprocess.run(['git','-C','/repo','log','--format=%H %s'],capture_output=True,text=True).stdout
    for l in out.splitlines():
        h, s = l.split(' ',1)
        if s.startswith('verif:'):
            src.append(h)
except Exception:
    pass

m = {
 "version": 1,
 "setup_cmd": "cd /verif/govc && GOFLAGS=-mod=vendor GOPROXY=off GOSUMDB=off GOTOOLCHAIN=local go build -o /verif/bin/govc . && cp /verif/scripts/check.sh /verif/bin/check && chmod +x /verif/bin/check",
 "hooks": {
   "guard": "verif",
   "enable": "go build tag `verif` (govc loads /repo with -tags=verif[,<config tags>]); the guarded files are the comment-only contract files verif_contracts.go (one per package) and verif_hooks.go in the root package (tags `verif` AND `verifhooks`, loaded only by the C03 check), which holds one function, verifRoundTrip (derive key, sign, verify), whose contract is the lemma of C03; none of them is compiled without the tags",
   "baseline_off_cmd": "cd /repo && GOFLAGS=-mod=mod GOPROXY=off GOSUMDB=off GOTOOLCHAIN=local go test -vet=off -count=1 ./...",
   "source_commits": src,
   "add_only": True,
 },
 "engines": [{"name": "govc", "path": "/verif/govc", "serves_properties": sorted(claimed.keys()), "kind_free_text": "verification-condition generator for Go (go/packages + go/ssa) with SMT and polynomial-normaliser back ends; contracts are //@ comment lines"}],
 "checks": checks,
 "not_applicable": na,
 "notes": "Exit codes of bin/check: 0 all obligations of the property's cone discharged; 1 with VIOLATION lines when an obligation fails; 2 with UNDECIDED lines (no VIOLATION) when the contracts no longer attach to the code (renamed function/parameter/local, construct outside the supported subset).",
}
json.dump(m, open('/verif/MANIFEST.json','w'), indent=1)
print("claimed:", sorted(claimed.keys()), "not claimed:", len(na))
