package main

import (
	"sync/atomic"
	"encoding/json"
	"flag"
	"fmt"
	"os"
	"path/filepath"
	"sort"
	"strings"
	"sync"
	"time"

	"golang.org/x/tools/go/packages"
	"golang.org/x/tools/go/ssa"
	"golang.org/x/tools/go/ssa/ssautil"
)

type BuildConfig struct {
	Name   string
	Tags   []string
	GOARCH string
}

var allConfigs = map[string]BuildConfig{
	"default":             {Name: "default"},
	"noasm":               {Name: "noasm", Tags: []string{"noasm"}},
	"force32bit":          {Name: "force32bit", Tags: []string{"force32bit"}},
	"appengine":           {Name: "appengine", Tags: []string{"appengine"}},
	"force32bit,appengine": {Name: "force32bit,appengine", Tags: []string{"force32bit", "appengine"}},
	"noasm,appengine":     {Name: "noasm,appengine", Tags: []string{"noasm", "appengine"}},
	"386":                 {Name: "386", GOARCH: "386"},
}

// extraLoadTags: additional build tags for this run (the lemma hook of C03 is behind `verifhooks`
// so that every other check loads the repository without it)
var extraLoadTags []string

func loadEngine(repo string, cfg BuildConfig, contractDir string) (*Engine, error) {
	tags := append([]string{"verif"}, cfg.Tags...)
	tags = append(tags, extraLoadTags...)
	pc := &packages.Config{Mode: packages.LoadAllSyntax, Dir: repo, BuildFlags: []string{"-tags=" + strings.Join(tags, ",")}}
	pc.Env = append(os.Environ(), "GOFLAGS=-mod=mod", "GOPROXY=off", "GOSUMDB=off", "GOTOOLCHAIN=local", "CGO_ENABLED=0")
	if cfg.GOARCH != "" {
		pc.Env = append(pc.Env, "GOARCH="+cfg.GOARCH)
	}
	pkgs, err := packages.Load(pc, "./...")
	if err != nil {
		return nil, err
	}
	if packages.PrintErrors(pkgs) > 0 {
		return nil, fmt.Errorf("package load errors under config %s", cfg.Name)
	}
	prog, spkgs := ssautil.AllPackages(pkgs, ssa.InstantiateGenerics|ssa.GlobalDebug)
	prog.Build()
	en := &Engine{prog: prog, pkgs: map[string]*ssa.Package{}, contracts: map[string]*PkgContracts{}, globals: map[*ssa.Global]*Region{}, globalInit: map[*ssa.Global]Cell{}, oblSeq: map[string]int{}, cfgName: cfg.Name, maxSteps: 4000000, maxPaths: 20000, inlineDepthMax: 12, sideBatch: 24, debugNames: map[ssa.Value]string{}, externCalls: map[string]bool{}, usedAxioms: map[string]bool{}, unsafeUses: map[string]bool{}, missingAnchors: map[string]bool{},
		forceInline: map[string]bool{}, inlined: map[string]bool{}, usedContracts: map[string]bool{}, assumedUsed: map[string]bool{}, usedLoops: map[string]bool{}, loopHdrCache: map[*ssa.Function]map[int]int{}, callOrdCache: map[*ssa.Function]map[ssa.Instruction]int{}, usedCuts: map[string]bool{}, anchorCache: map[*ssa.Function]*cutAnchorSet{}}
	for _, p := range spkgs {
		if p != nil {
			en.pkgs[p.Pkg.Path()] = p
		}
	}
	wordBits = 64
	if cfg.GOARCH == "386" {
		wordBits = 32
	}
	// configuration predicates for contract files
	preds := map[string]bool{"w64": wordBits == 64, "w32": wordBits == 32}
	if p := en.pkgs[pkgOrder[0]]; p != nil {
		if t := p.Type("Bignum25519"); t != nil {
			n := t.Type().Underlying().(interface{ Len() int64 }).Len()
			preds["limbs64"] = n == 5
			preds["limbs32"] = n == 10
		}
	}
	if p := en.pkgs[pkgOrder[2]]; p != nil {
		preds["asm"] = p.Func("scalarmultBaseChooseNielsAMD64") != nil
		preds["movecond_unsafe"] = p.Func("moveConditionalBytes64") != nil
	}
	en.preds = preds
	for _, path := range pkgOrder {
		rel := strings.TrimPrefix(strings.TrimPrefix(path, "github.com/oasisprotocol/ed25519"), "/")
		file := filepath.Join(repo, rel, "verif_contracts.go")
		if _, err := os.Stat(file); err != nil || os.Getenv("GOVC_MIRROR") != "" {
			// mirror (development: GOVC_MIRROR=1 reads the contracts from /verif/contracts)
			name := strings.ReplaceAll(rel, "/", "_")
			if name == "" {
				name = "ed25519"
			}
			file = filepath.Join(contractDir, name+".go")
			if _, err := os.Stat(file); err != nil {
				continue
			}
		}
		c, err := ParseContracts(file, path, func(p string) bool { return preds[p] })
		if err != nil {
			return nil, err
		}
		en.contracts[path] = c
	}
	if err := en.RunInits(); err != nil {
		return nil, err
	}
	return en, nil
}

type OblResult struct {
	Name    string  `json:"name"`
	Kind    string  `json:"kind"`
	Func    string  `json:"func"`
	Detail  string  `json:"detail"`
	Pos     string  `json:"pos,omitempty"`
	Verdict string  `json:"verdict"` // proved | failed | undecided
	Backend string  `json:"backend"`
	Time    float64 `json:"time_s"`
	Info    string  `json:"info,omitempty"`
	Model   map[string]string `json:"model,omitempty"`
	Script  string  `json:"-"`
	Replayed  bool   `json:"replayed"`
	ReplayLog string `json:"replay_log,omitempty"`
	ReplayCmd string `json:"replay_cmd,omitempty"`
}

func discharge(o *Obligation, timeout time.Duration) OblResult {
	return discharge0(o, timeout)
}

func discharge0(o *Obligation, timeout time.Duration) (r OblResult) {
	r = OblResult{Name: o.Name, Kind: o.Kind, Func: o.Func, Detail: o.Detail, Pos: o.Pos}
	t0 := time.Now()
	defer func() { r.Time = time.Since(t0).Seconds() }()
	if o.Kind == "cover" {
		if memo != nil {
			key := obligationKey(o)
			if be, ok := memo.get(key); ok {
				r.Verdict, r.Backend = "proved", "memo:"+be
				return r
			}
			defer func() {
				if r.Verdict == "proved" {
					memo.put(key, r.Backend)
				}
			}()
		}
		sr := Solve(&Query{Facts: o.Facts, Goal: nil, Axioms: o.Axioms}, 10*time.Second, false, nil)
		if sr.Verdict == "unsat" {
			r.Verdict, r.Backend, r.Info = "failed", sr.Solver, "the assumptions are contradictory: every proof about this function instance would be vacuous"
			r.Script = sr.Script
		} else {
			r.Verdict, r.Backend = "proved", "cover:"+sr.Verdict
		}
		return r
	}
	if o.Goal.IsTrue() {
		r.Verdict, r.Backend = "proved", "trivial"
		return r
	}
	// simplify the goal under the facts: boolean subterms that are facts (or negated facts) become
	// constants, variables fixed to a constant by a fact are replaced
	if o.Goal != nil {
		if g := simplifyUnder(o.Facts, o.Goal); g != o.Goal {
			o = &Obligation{Name: o.Name, Kind: o.Kind, Func: o.Func, Facts: o.Facts, Goal: g, Detail: o.Detail, Pos: o.Pos, Uses: o.Uses, Axioms: o.Axioms, Alg: o.Alg}
			if g.IsTrue() {
				r.Verdict, r.Backend = "proved", "simplified"
				return r
			}
		}
	}
	for _, f := range o.Facts {
		if f == o.Goal {
			r.Verdict, r.Backend = "proved", "fact"
			return r
		}
	}
	if os.Getenv("GOVC_DEBUG2") != "" {
		fmt.Fprintf(os.Stderr, "GOAL %s\n", o.Goal.str(-3))
		for _, f := range o.Facts[max(0, len(o.Facts)-6):] {
			fmt.Fprintf(os.Stderr, "FACT %s\n", f.str(-3))
		}
	}
	if dec, holds, why := groundDecide(o.Goal); dec {
		r.Backend, r.Info = "ground", why
		if holds {
			r.Verdict = "proved"
		} else {
			r.Verdict = "failed"
		}
		return r
	}
	{
		if _, _, isC := asCongruence(o.Goal); isC || (o.Alg && o.Goal.op == OAnd) {
			ok, why := AlgProve(o.Facts, o.Goal)
			if ok {
				r.Verdict, r.Backend, r.Info = "proved", "alg", why
				return r
			}
			r.Info = "alg: " + why + " "
		}
		if os.Getenv("GOVC_ALGONLY") != "" {
			r.Verdict, r.Backend = "undecided", "alg"
			return r
		}
	}
	if o.Goal.op == OLe || o.Goal.op == OLt || o.Goal.op == OAnd {
		if ok, why := LinIntervalProve(o.Facts, o.Goal); ok {
			r.Verdict, r.Backend, r.Info = "proved", "lin", why
			return r
		} else if os.Getenv("GOVC_DEBUG") != "" {
			r.Info += "lin: " + why + " "
		}
	}
	// ground instances of the group axioms this function uses (derived facts)
	if len(o.Uses) > 0 && o.Goal.sort == SBool {
		if der := instantiateGroupAxioms(o.Facts, o.Uses, gD, gP); len(der) > 0 {
			o = &Obligation{Name: o.Name, Kind: o.Kind, Func: o.Func, Facts: append(append([]*Term(nil), o.Facts...), der...), Goal: o.Goal, Detail: o.Detail, Pos: o.Pos, Uses: o.Uses, Axioms: o.Axioms}
			r.Info += fmt.Sprintf("%d ground instances of group axioms; ", len(der))
			if os.Getenv("GOVC_DEBUG") != "" {
				for _, d := range der[max(0, len(der)-60):] {
					fmt.Fprintf(os.Stderr, "ginst: %s\n", d.str(2))
				}
				fmt.Fprintf(os.Stderr, "ginst goal: %s\n", o.Goal.str(2))
				if o.Goal.op == OEq {
					for _, d := range der {
						if d.op == OEq && (d.args[0] == o.Goal.args[0] || d.args[1] == o.Goal.args[0]) {
							fmt.Fprintf(os.Stderr, "ginst GOAL-LHS derived: %s\n", d.args[1].args[1].str(-8)+" ;; "+d.args[1].args[2].str(-8))
						}
					}
					fmt.Fprintf(os.Stderr, "ginst GOAL-RHS: %s\n", o.Goal.args[1].args[1].str(-8)+" ;; "+o.Goal.args[1].args[2].str(-8))
				}
			}
		}
	}
	// p <=> forall k. B  as a goal: two directions; as a fact: the forall direction plus a skolem witness
	if o.Goal != nil {
		if parts := splitIffForall(o); len(parts) > 0 {
			for _, po := range parts {
				pr := discharge0(po, timeout)
				if pr.Verdict != "proved" {
					pr.Name, pr.Kind, pr.Func, pr.Detail, pr.Pos = o.Name, o.Kind, o.Func, o.Detail, o.Pos
					pr.Info = "[direction " + po.Detail + "] " + pr.Info
					return pr
				}
				r.Backend = pr.Backend
			}
			r.Verdict, r.Backend = "proved", "cases("+r.Backend+")"
			return r
		}
		if extra := iffForallFacts(o.Facts); len(extra) > 0 {
			o = &Obligation{Name: o.Name, Kind: o.Kind, Func: o.Func, Facts: append(append([]*Term(nil), o.Facts...), extra...), Goal: o.Goal, Detail: o.Detail, Pos: o.Pos, Uses: o.Uses, Axioms: o.Axioms, Alg: o.Alg}
		}
	}
	// p ==> q : assume p
	for o.Goal != nil && o.Goal.op == OImp {
		o = &Obligation{Name: o.Name, Kind: o.Kind, Func: o.Func, Facts: append(append([]*Term(nil), o.Facts...), o.Goal.args[0]), Goal: o.Goal.args[1], Detail: o.Detail, Pos: o.Pos, Uses: o.Uses, Axioms: o.Axioms, Alg: o.Alg}
	}
	// a universally quantified goal is proved for a fresh constant
	for o.Goal != nil && o.Goal.op == OForall && o.Goal.args[0].sort == SInt {
		k0 := FreshVar("sk", SInt)
		g := substitute(o.Goal.args[1], map[int]*Term{o.Goal.args[0].id: k0}, map[int]*Term{})
		o = &Obligation{Name: o.Name, Kind: o.Kind, Func: o.Func, Facts: o.Facts, Goal: g, Detail: o.Detail, Pos: o.Pos, Uses: o.Uses, Axioms: o.Axioms, Alg: o.Alg}
	}
	// case split on an array update read at the skolem index:  select(store(a, j, v), idx)
	if o.Goal != nil {
		if parts := splitStoreGoal(o); len(parts) > 0 {
			for _, po := range parts {
				pr := discharge0(po, timeout)
				if pr.Verdict != "proved" {
					pr.Name, pr.Kind, pr.Func, pr.Detail, pr.Pos = o.Name, o.Kind, o.Func, o.Detail, o.Pos
					pr.Info = "[case " + po.Detail + "] " + pr.Info
					return pr
				}
				r.Backend = pr.Backend
			}
			r.Verdict = "proved"
			r.Backend = "cases(" + r.Backend + ")"
			r.Info += "case split on the updated array element; "
			return r
		}
	}
	// instances of the quantified assumptions for the ground terms at hand (quant.go)
	if o.Goal != nil {
		if inst := instantiateQuantifiers(o.Facts, o.Goal); len(inst) > 0 {
			o = &Obligation{Name: o.Name, Kind: o.Kind, Func: o.Func, Facts: append(append([]*Term(nil), o.Facts...), inst...), Goal: o.Goal, Detail: o.Detail, Pos: o.Pos, Uses: o.Uses, Axioms: o.Axioms, Alg: o.Alg}
			r.Info += fmt.Sprintf("%d instances of quantified assumptions; ", len(inst))
		}
	}
	// a goal  X == lc2(Q, a, b)  whose left side has a derived closed form lc2(Q, a', b') reduces to
	// the integer goals a' == a and b' == b (sufficient by congruence)
	if o.Goal != nil && o.Goal.op == OEq && o.Goal.args[0].sort == Sort("Pt") {
		lhs, rhs := o.Goal.args[0], o.Goal.args[1]
		if rhs.op != OUF || rhs.name != "lc2" {
			lhs, rhs = rhs, lhs
		}
		if rhs.op == OUF && rhs.name == "lc2" {
			for _, d := range o.Facts {
				if d.op != OEq || d.args[0] != lhs {
					continue
				}
				cf := d.args[1]
				if cf.op == OUF && cf.name == "lc2" && cf.args[0] == rhs.args[0] {
					g := And(Eq(cf.args[1], rhs.args[1]), Eq(cf.args[2], rhs.args[2]))
					o = &Obligation{Name: o.Name, Kind: o.Kind, Func: o.Func, Facts: o.Facts, Goal: g, Detail: o.Detail, Pos: o.Pos, Uses: o.Uses, Axioms: o.Axioms, Alg: o.Alg}
					r.Info += "reduced to the coefficients of the linear combination; "
					break
				}
			}
		}
	}
	// focused attempt: only the quantifier-free assumptions that share symbols with the goal
	if o.Goal != nil {
		if foc := relevantAll(o.Facts, o.Goal, 3, 400); len(foc) > 0 && len(foc) < len(o.Facts) {
			qa := &Query{Facts: foc, Goal: o.Goal, AbstractNL: true}
			if sa := Solve(qa, 3*time.Second, false, nil); sa.Verdict == "unsat" {
				r.Verdict, r.Backend, r.Script = "proved", sa.Solver+"(focused,nl-abstracted)", sa.Script
				return r
			}
		}
	}
	// solver stage: consult the verdict memo first (memo.go)
	if memo != nil {
		key := obligationKey(o)
		if be, ok := memo.get(key); ok {
			r.Verdict, r.Backend = "proved", "memo:"+be
			r.Info = "query " + key[:16] + " (identical up to renaming) was discharged before by " + be
			return r
		}
		defer func() {
			if r.Verdict == "proved" {
				memo.put(key, r.Backend)
			}
		}()
	}
	// quantified axioms slow every query down and are rarely needed: try without them first
	if qf := quantifierFree(o.Facts); len(qf) < len(o.Facts) {
		qa := &Query{Facts: qf, Goal: o.Goal, AbstractNL: true}
		if sa := Solve(qa, stageTimeout(timeout/4+time.Second), false, nil); sa.Verdict == "unsat" {
			r.Verdict, r.Backend, r.Script = "proved", sa.Solver+"(qf,nl-abstracted)", sa.Script
			return r
		}
	}
	// first with nonlinear products abstracted to fresh integers (sound for validity, much easier),
	// then exactly
	if hasNonlinear(o.Facts, o.Goal) {
		qa := &Query{Facts: o.Facts, Goal: o.Goal, Axioms: o.Axioms, AbstractNL: true}
		if sa := Solve(qa, stageTimeout(timeout/3+time.Second), false, nil); sa.Verdict == "unsat" {
			r.Verdict, r.Backend, r.Script = "proved", sa.Solver+"(nl-abstracted)", sa.Script
			return r
		}
	}
	q := &Query{Facts: o.Facts, Goal: o.Goal, Axioms: o.Axioms}
	sr := Solve(q, timeout, true, nil)
	r.Backend = sr.Solver
	r.Script = sr.Script
	switch sr.Verdict {
	case "unsat":
		r.Verdict = "proved"
	case "sat":
		// a model counts only if it is confirmed by exact evaluation (queries may contain
		// uninterpreted abstractions, for which a solver model proves nothing)
		m := parseModel(sr.Output)
		if ok, why := confirmModel(o.Facts, o.Goal, m); ok {
			r.Verdict = "failed"
			r.Model = m
			r.Info += "solver model confirmed by exact evaluation"
		} else {
			r.Verdict = "undecided"
			r.Info += "solver reported sat but the model is not confirmed (" + why + ")"
			if m2, how := searchCounterexample(o.Facts, o.Goal, 4000, 1); m2 != nil {
				r.Verdict, r.Backend, r.Model = "failed", "eval", m2
				r.Info += " " + how
			}
		}
	default:
		r.Verdict = "undecided"
		r.Info += sr.Output
		r.Backend = "none"
		if m, how := searchCounterexample(o.Facts, o.Goal, 400, 1); m != nil {
			r.Verdict, r.Backend, r.Model = "failed", "eval", m
			r.Info += " " + how
		} else {
			r.Info += " " + how
		}
	}
	return r
}

// maxNotProved: stop attempting obligations after this many have failed (0 = no limit)
var maxNotProved int64

func dischargeAll(obls []*Obligation, timeout time.Duration, par int) []OblResult {
	res := make([]OblResult, len(obls))
	if os.Getenv("GOVC_PAR") != "" {
		par = 1
	}
	if only := os.Getenv("GOVC_ONLY"); only != "" {
		var sel []*Obligation
		for _, o := range obls {
			if strings.Contains(o.Name, only) {
				sel = append(sel, o)
			}
		}
		obls = sel
		res = make([]OblResult, len(obls))
	}
	var wg sync.WaitGroup
	sem := make(chan struct{}, par)
	var notProved int64
	for i, o := range obls {
		wg.Add(1)
		sem <- struct{}{}
		go func(i int, o *Obligation) {
			defer wg.Done()
			defer func() { <-sem }()
			// once many obligations have failed the verdict is settled: the remaining ones are
			// skipped (reported as such, never counted as discharged)
			if maxNotProved > 0 && atomic.LoadInt64(&notProved) >= maxNotProved {
				res[i] = OblResult{Name: o.Name, Kind: o.Kind, Func: o.Func, Detail: o.Detail, Pos: o.Pos, Verdict: "skipped", Backend: "none", Info: "not attempted: the failure limit of this run was reached"}
				return
			}
			res[i] = discharge(o, timeout)
			if res[i].Verdict != "proved" {
				atomic.AddInt64(&notProved, 1)
			}
		}(i, o)
	}
	wg.Wait()
	return res
}

func main() {
	if len(os.Args) < 2 {
		fmt.Fprintln(os.Stderr, "usage: govc verify|check ...")
		os.Exit(2)
	}
	switch os.Args[1] {
	case "verify":
		cmdVerify(os.Args[2:])
	case "check":
		cmdCheck(os.Args[2:])
	case "loops":
		// development aid: govc loops <pkg-suffix> <func> [config]: loop ordinals, header positions, phis
		cfgN := "default"
		if len(os.Args) > 4 {
			cfgN = os.Args[4]
		}
		en, err := loadEngine("/repo", allConfigs[cfgN], "/verif/contracts")
		if err != nil {
			fmt.Println(err)
			os.Exit(2)
		}
		for _, path := range pkgOrder {
			if !strings.HasSuffix(path, os.Args[2]) {
				continue
			}
			fn := en.lookupFunc(path, os.Args[3])
			if fn == nil {
				continue
			}
			hs := loopHeaders(fn)
			for _, b := range fn.Blocks {
				if ord, ok := hs[b.Index]; ok {
					fmt.Printf("loop#%d block %d (%s)", ord, b.Index, b.Comment)
					for _, ins := range b.Instrs {
						if ph, ok := ins.(*ssa.Phi); ok {
							fmt.Printf(" phi:%s", ph.Comment)
						} else if ins.Pos().IsValid() {
							fmt.Printf(" @%s", posOf(en, ins.Pos()))
							break
						}
					}
					fmt.Println()
				}
			}
			n := 0
			for _, b := range fn.Blocks {
				for _, ins := range b.Instrs {
					if c, ok := ins.(*ssa.Call); ok {
						n++
						fmt.Printf("call#%d %s @%s\n", n, c.Call.Value.Name(), posOf(en, c.Pos()))
					}
				}
			}
		}
	default:
		fmt.Fprintln(os.Stderr, "unknown command")
		os.Exit(2)
	}
}

// cmdVerify: development entry point — verify selected functions under one config.
func cmdVerify(args []string) {
	fs := flag.NewFlagSet("verify", flag.ExitOnError)
	repo := fs.String("repo", "/repo", "repository")
	cfgName := fs.String("config", "default", "build configuration")
	cdir := fs.String("contracts", "/verif/contracts", "mirror contract dir")
	pkgSel := fs.String("pkg", "", "package suffix filter (e.g. curve25519)")
	fnSel := fs.String("func", "", "comma-separated function keys (default: all with contracts)")
	timeout := fs.Duration("timeout", 60*time.Second, "per-obligation solver timeout")
	verbose := fs.Bool("v", false, "verbose")
	dump := fs.String("dump", "", "directory to dump failed/undecided queries")
	noElide := fs.Bool("no-elide", false, "never drop wraps (exact modular encoding everywhere)")
	fs.Parse(args)
	cfg, ok := allConfigs[*cfgName]
	if !ok {
		fmt.Fprintln(os.Stderr, "unknown config")
		os.Exit(2)
	}
	if os.Getenv("GOVC_MEMO") != "" {
		memoOpen("/verif")
	}
	if t := os.Getenv("GOVC_TAGS"); t != "" {
		extraLoadTags = strings.Split(t, ",")
	}
	t0 := time.Now()
	en, err := loadEngine(*repo, cfg, *cdir)
	if err != nil {
		fmt.Fprintln(os.Stderr, "load:", err)
		os.Exit(2)
	}
	en.noElide = *noElide
	fmt.Printf("loaded in %.1fs\n", time.Since(t0).Seconds())
	want := map[string]bool{}
	for _, f := range fieldsComma(*fnSel) {
		want[f] = true
	}
	var results []*FuncResult
	for _, path := range pkgOrder {
		if *pkgSel != "" && !strings.HasSuffix(path, *pkgSel) {
			continue
		}
		pc := en.contracts[path]
		if pc == nil {
			continue
		}
		var keys []string
		for k := range pc.Funcs {
			keys = append(keys, k)
		}
		sort.Strings(keys)
		for _, k := range keys {
			if len(want) > 0 && !want[k] {
				continue
			}
			fc := pc.Funcs[k]
			fn := en.lookupFunc(path, k)
			if fn == nil {
				fmt.Printf("UNDECIDED: contract %s.%s has no function in this configuration\n", path, k)
				continue
			}
			if fc.Assumed || fc.CTOnly {
				continue
			}
			pats := append([]AliasPattern{nil}, fc.Alias...)
			for _, ap := range pats {
				if len(fc.Cases) == 0 {
					results = append(results, en.VerifyFunction(fn, fc, pc, ap, -1))
					if len(fc.SliceBind) > 0 {
						en.sliceBindActive = true
						results = append(results, en.VerifyFunction(fn, fc, pc, ap, -1))
						en.sliceBindActive = false
					}
					continue
				}
				for ci := range fc.Cases {
					results = append(results, en.VerifyFunction(fn, fc, pc, ap, ci))
				}
			}
		}
	}
	var all []*Obligation
	for _, r := range results {
		all = append(all, r.Obligations...)
		if r.Cover != nil {
			all = append(all, r.Cover)
		}
		for _, e := range r.Errors {
			fmt.Printf("ERROR %s{%s}: %s\n", r.Func, r.AliasCase, e)
		}
	}
	fmt.Printf("%d function instances, %d obligations generated in %.1fs\n", len(results), len(all), time.Since(t0).Seconds())
	if os.Getenv("GOVC_LIST") != "" {
		cnt := map[string]int{}
		for _, o := range all {
			cnt[o.Kind]++
		}
		fmt.Println(cnt)
		os.Exit(0)
	}
	ors := dischargeAll(all, *timeout, 8)
	bad := 0
	for _, o := range ors {
		if o.Verdict != "proved" || *verbose {
			fmt.Printf("%-9s %-8s %6.2fs %s\n      %s %s\n", o.Verdict, o.Backend, o.Time, o.Name, o.Detail, o.Info)
			if o.Verdict != "proved" && len(o.Model) > 0 && len(o.Model) < 60 {
				b, _ := json.Marshal(o.Model)
				fmt.Printf("      model: %s\n", b)
			}
		}
		if o.Verdict != "proved" {
			bad++
			if *dump != "" && o.Script != "" {
				os.MkdirAll(*dump, 0o755)
				os.WriteFile(filepath.Join(*dump, sanitize(o.Name)+".smt2"), []byte(o.Script), 0o644)
			}
		}
	}
	fmt.Printf("obligations: %d, proved: %d, not proved: %d, flow-decided: %d, wall %.1fs\n", len(ors), len(ors)-bad, bad, en.flowOK, time.Since(t0).Seconds())
	if scratchDir != "" {
		os.RemoveAll(scratchDir)
	}
	if bad > 0 {
		os.Exit(1)
	}
}

func (en *Engine) lookupFunc(pkgPath, key string) *ssa.Function {
	p := en.pkgs[pkgPath]
	if p == nil {
		return nil
	}
	for fn := range ssautil.AllFunctions(en.prog) {
		if fn.Pkg == p && fn.RelString(p.Pkg) == key {
			return fn
		}
	}
	return nil
}

func hasNonlinear(facts []*Term, goal *Term) bool {
	seen := map[int]bool{}
	found := false
	var rec func(t *Term)
	rec = func(t *Term) {
		if found || seen[t.id] {
			return
		}
		seen[t.id] = true
		if (t.op == OMul && len(t.args) >= 2) || t.op == OPow {
			found = true
			return
		}
		for _, a := range t.args {
			rec(a)
		}
	}
	for _, f := range facts {
		rec(f)
	}
	if goal != nil {
		rec(goal)
	}
	return found
}

// splitStoreGoal: the goal reads an updated array at an index that mentions a skolem constant:
// prove it once for "the index is the updated one" (skolem constant solved for) and once for
// "it is a different one" (the read goes to the old array). Sound: the two cases are exhaustive.
func splitStoreGoal(o *Obligation) []*Obligation {
	var sel *Term
	seen := map[int]bool{}
	var rec func(t *Term)
	rec = func(t *Term) {
		if sel != nil || seen[t.id] {
			return
		}
		seen[t.id] = true
		if t.op == OSelect && t.args[0].op == OStore {
			hasSk := false
			walk(t.args[1], map[int]bool{}, func(x *Term) {
				if x.op == OVar && strings.HasPrefix(x.name, "sk!") {
					hasSk = true
				}
			})
			if hasSk {
				sel = t
				return
			}
		}
		if t.op == OForall {
			return
		}
		for _, a := range t.args {
			rec(a)
		}
	}
	rec(o.Goal)
	if sel == nil {
		return nil
	}
	st := sel.args[0]
	j, idx := st.args[1], sel.args[1]
	// the skolem variable inside idx
	var sk *Term
	walk(idx, map[int]bool{}, func(x *Term) {
		if x.op == OVar && strings.HasPrefix(x.name, "sk!") && sk == nil {
			sk = x
		}
	})
	c, rest, ok := linearIn(idx, sk)
	if !ok || c.Cmp(bi(1)) != 0 {
		return nil
	}
	mk := func(goal *Term, extra []*Term, what string) *Obligation {
		return &Obligation{Name: o.Name, Kind: o.Kind, Func: o.Func, Facts: append(append([]*Term(nil), o.Facts...), extra...), Goal: goal, Detail: what, Pos: o.Pos, Uses: o.Uses, Axioms: o.Axioms, Alg: o.Alg}
	}
	// case 1: idx == j, i.e. sk == j - rest
	g1 := substitute(o.Goal, map[int]*Term{sk.id: Sub(j, rest)}, map[int]*Term{})
	// case 2: idx != j: the read sees the old array
	old := Select(st.args[0], idx)
	g2 := substitute(o.Goal, map[int]*Term{sel.id: old}, map[int]*Term{})
	return []*Obligation{mk(g1, nil, "index is the updated element"), mk(g2, []*Term{Not(Eq(idx, j))}, "index is another element")}
}

func iffSides(t *Term) (p, q *Term, ok bool) {
	if t.op != OEq || t.args[0].sort != SBool {
		return nil, nil, false
	}
	a, b := t.args[0], t.args[1]
	if b.op == OForall && a.op != OForall {
		return a, b, true
	}
	if a.op == OForall && b.op != OForall {
		return b, a, true
	}
	return nil, nil, false
}

// splitIffForall: goal  p <=> forall k. B  becomes  (p ==> forall k. B)  and  (facts, forall k. B |- p).
func splitIffForall(o *Obligation) []*Obligation {
	p, q, ok := iffSides(o.Goal)
	if !ok {
		return nil
	}
	mk := func(goal *Term, extra []*Term, what string) *Obligation {
		return &Obligation{Name: o.Name, Kind: o.Kind, Func: o.Func, Facts: append(append([]*Term(nil), o.Facts...), extra...), Goal: goal, Detail: what, Pos: o.Pos, Uses: o.Uses, Axioms: o.Axioms, Alg: o.Alg}
	}
	return []*Obligation{mk(Imp(p, q), nil, "flag implies all"), mk(p, []*Term{q}, "all implies flag")}
}

// iffForallFacts: from a fact  p <=> forall k. B(k)  derive  p ==> forall k. B(k)  and, for a
// fresh witness w,  !p ==> !B(w)  (skolemised existential).
func iffForallFacts(facts []*Term) []*Term {
	var out []*Term
	for _, f := range facts {
		p, q, ok := iffSides(f)
		if !ok {
			continue
		}
		out = append(out, Imp(p, q))
		w := FreshVar("wit", q.args[0].sort)
		out = append(out, Imp(Not(p), Not(substitute(q.args[1], map[int]*Term{q.args[0].id: w}, map[int]*Term{}))))
	}
	return out
}

// relevantAll selects the quantifier-free facts connected to the goal through shared
// variables / applications / selects within the given number of rounds (at most max facts).
func relevantAll(facts []*Term, goal *Term, rounds, max int) []*Term {
	symsOf := func(t *Term) map[int]bool {
		m := map[int]bool{}
		walk(t, map[int]bool{}, func(x *Term) {
			if x.op == OVar || (x.op == OUF && len(x.args) > 0) || x.op == OSelect {
				m[x.id] = true
			}
		})
		return m
	}
	flat := flattenFacts(facts)
	cur := symsOf(goal)
	taken := make([]bool, len(flat))
	fs := make([]map[int]bool, len(flat))
	var out []*Term
	for r := 0; r < rounds; r++ {
		added := false
		next := map[int]bool{}
		for i, f := range flat {
			if taken[i] {
				continue
			}
			if fs[i] == nil {
				if len(quantifierFree([]*Term{f})) == 0 {
					taken[i] = true
					continue
				}
				fs[i] = symsOf(f)
			}
			hit := false
			for id := range fs[i] {
				if cur[id] {
					hit = true
					break
				}
			}
			if hit {
				taken[i] = true
				out = append(out, f)
				added = true
				for id := range fs[i] {
					next[id] = true
				}
				if len(out) >= max {
					return out
				}
			}
		}
		for id := range next {
			cur[id] = true
		}
		if !added {
			break
		}
	}
	return out
}

// stageTimeout: the early (cheaper) solver stages get at least 15 s so that a loaded machine does
// not push a normally 5-8 s query into the later, harder encodings
func stageTimeout(d time.Duration) time.Duration {
	if d < 75*time.Second {
		return 75 * time.Second
	}
	return d
}

func quantifierFree(facts []*Term) []*Term {
	memo := map[int]bool{}
	var has func(t *Term) bool
	has = func(t *Term) bool {
		if v, ok := memo[t.id]; ok {
			return v
		}
		r := t.op == OForall
		for _, a := range t.args {
			if r {
				break
			}
			if has(a) {
				r = true
			}
		}
		memo[t.id] = r
		return r
	}
	var out []*Term
	for _, f := range facts {
		if !has(f) {
			out = append(out, f)
		}
	}
	return out
}

func max(a, b int) int {
	if a > b {
		return a
	}
	return b
}

func simplifyUnder(facts []*Term, goal *Term) *Term {
	truth := map[int]bool{}
	sub := map[int]*Term{}
	for _, f := range flattenFacts(facts) {
		truth[f.id] = true
		if f.op == ONot {
			continue
		}
		if f.op == OEq && f.args[0].sort == SInt {
			a, b := f.args[0], f.args[1]
			if a.op == OConst && b.op == OVar {
				sub[b.id] = a
			} else if b.op == OConst && a.op == OVar {
				sub[a.id] = b
			}
		}
	}
	neg := map[int]bool{}
	for _, f := range flattenFacts(facts) {
		if f.op == ONot {
			neg[f.args[0].id] = true
		}
	}
	memo := map[int]*Term{}
	var rec func(t *Term) *Term
	rec = func(t *Term) *Term {
		if r, ok := memo[t.id]; ok {
			return r
		}
		var r *Term
		switch {
		case t.sort == SBool && truth[t.id] && t.op != OTrue:
			r = True()
		case t.sort == SBool && neg[t.id]:
			r = False()
		default:
			if s, ok := sub[t.id]; ok {
				r = s
			} else if len(t.args) == 0 || t.op == OForall {
				r = t
			} else {
				args := make([]*Term, len(t.args))
				ch := false
				for i, a := range t.args {
					args[i] = rec(a)
					if args[i] != a {
						ch = true
					}
				}
				if ch {
					r = rebuild(t, args)
				} else {
					r = t
				}
			}
		}
		memo[t.id] = r
		return r
	}
	// the goal itself must not be replaced wholesale by "true" because it is a fact; that case is handled by the caller
	if truth[goal.id] {
		return goal
	}
	return rec(goal)
}
