package main

// Package-level variables: initial contents are obtained by executing the
// package initialisers of the tree under test with the same interpreter
// (concretely, from zeroed globals); a separate scan lists every store to a
// global outside initialisers (the `global-immutable` obligations of C15).

import (
	"regexp"
	"go/types"
	"go/token"
	"fmt"
	"sort"
	"strings"

	"golang.org/x/tools/go/ssa"
	"golang.org/x/tools/go/ssa/ssautil"
)

func isInitFunc(fn *ssa.Function) bool {
	n := fn.Name()
	return n == "init" || strings.HasPrefix(n, "init#") || strings.HasPrefix(n, "init$")
}

// RunInits executes the initialisers of the module's packages and records the resulting global contents.
func (en *Engine) RunInits() error {
	en.initMode = true
	flatArrays = false
	defer func() { en.initMode = false; flatArrays = true }()
	for _, path := range pkgOrder {
		p := en.pkgs[path]
		if p == nil {
			continue
		}
		fn := p.Func("init")
		if fn == nil || fn.Blocks == nil {
			continue
		}
		if err := en.runInit(fn); err != nil {
			return fmt.Errorf("initialiser of %s: %v", path, err)
		}
	}
	return nil
}

func (en *Engine) runInit(fn *ssa.Function) (err error) {
	defer func() {
		if r := recover(); r != nil {
			if ee, ok := r.(execError); ok {
				err = fmt.Errorf("%s", ee.msg)
				return
			}
			panic(r)
		}
	}()
	saveSteps := en.maxSteps
	en.maxSteps = 50000000
	defer func() { en.maxSteps = saveSteps }()
	st := &State{mem: map[*Region]Cell{}, bounds: NewBounds(), sideSeen: map[int]bool{}, typed: map[int]bool{}, cutDone: map[int]bool{}}
	// start from the globals initialised so far (dependencies run first)
	for g, c := range en.globalInit {
		st.mem[en.globalRegion(g)] = c
	}
	fr := &Frame{fn: fn, env: map[ssa.Value]Value{}, visits: map[int]int{}, loopSt: map[int]*loopState{}}
	fr.block = fn.Blocks[0]
	st.frames = []*Frame{fr}
	en.curFunc = "init:" + fn.Pkg.Pkg.Name()
	nobl := len(en.obls)
	work := []*State{st}
	var final *State
	for len(work) > 0 {
		s := work[len(work)-1]
		work = work[:len(work)-1]
		for !s.done {
			work = append(work, en.step(s)...)
		}
		if s.infeasible {
			continue
		}
		if final != nil {
			return fmt.Errorf("initialiser has more than one feasible path")
		}
		final = s
	}
	en.obls = en.obls[:nobl] // initialisers run concretely; nothing to prove
	if final == nil || final.panicked {
		return fmt.Errorf("initialiser does not terminate normally")
	}
	for r, c := range final.mem {
		if r.kind == "global" && r.global != nil {
			en.globalInit[r.global] = c
		} else {
			// memory allocated by an initialiser (reachable only through package variables)
			if en.initMem == nil {
				en.initMem = map[*Region]Cell{}
			}
			en.initMem[r] = c
		}
	}
	return nil
}

type GlobalStore struct {
	Global string
	Func   string
	Pos    string
	Guard  string
}

// GlobalsCheck: every package-level variable of the module is written only by package
// initialisers (obligation kind `global-immutable`, one per variable and configuration), and the
// module starts no goroutines of its own (`no-go`). A write is a store instruction whose address is
// derived from the variable (or from a slice/pointer loaded from it), or a call that passes such an
// address to a parameter the callee may write (callee's modifies clause, or -- without a
// contract -- the syntactic may-write analysis of its body). A write that is dominated by a test of
// a boolean package variable which itself has no writer and is initially false is unreachable
// in production use and is accepted (testBatchY under testBatchSaveY).
func (en *Engine) GlobalsCheck(run *checkRun) []*Obligation {
	type writer struct {
		fn, pos, how string
		guard       *ssa.Global
	}
	writers := map[*ssa.Global][]writer{}
	var globals []*ssa.Global
	var fns []*ssa.Function
	goStmts := []string{}
	for fn := range ssautil.AllFunctions(en.prog) {
		if fn.Pkg == nil || !modulePkg(fn.Pkg.Pkg.Path()) || fn.Blocks == nil {
			continue
		}
		fns = append(fns, fn)
	}
	sort.Slice(fns, func(i, j int) bool { return fns[i].String() < fns[j].String() })
	for path, pkg := range en.pkgs {
		if !modulePkg(path) {
			continue
		}
		for _, m := range pkg.Members {
			if g, ok := m.(*ssa.Global); ok && !strings.HasPrefix(g.Name(), "init$") {
				globals = append(globals, g)
			}
		}
	}
	sort.Slice(globals, func(i, j int) bool { return globals[i].String() < globals[j].String() })
	isMod := func(g *ssa.Global) bool { return g != nil && g.Pkg != nil && modulePkg(g.Pkg.Pkg.Path()) }
	for _, fn := range fns {
		if isInitFunc(fn) {
			continue
		}
		if fn.Synthetic != "" && !strings.Contains(fn.Name(), "$") {
			continue
		}
		for _, b := range fn.Blocks {
			for _, ins := range b.Instrs {
				switch x := ins.(type) {
				case *ssa.Go:
					goStmts = append(goStmts, fn.String()+" at "+posOf(en, x.Pos()))
				case *ssa.Store:
					if g := baseGlobal(x.Addr); isMod(g) {
						writers[g] = append(writers[g], writer{fn.String(), posOf(en, x.Pos()), "store", guardGlobal(b)})
					}
				case *ssa.MapUpdate:
					if g := baseGlobal(x.Map); isMod(g) {
						writers[g] = append(writers[g], writer{fn.String(), posOf(en, x.Pos()), "map update", guardGlobal(b)})
					}
				case *ssa.Call:
					if bi, ok := x.Call.Value.(*ssa.Builtin); ok {
						if bi.Name() == "copy" || bi.Name() == "append" || bi.Name() == "clear" {
							// append writes in place when the capacity suffices
							if g := baseGlobal(x.Call.Args[0]); isMod(g) && len(x.Call.Args) > 1 {
								writers[g] = append(writers[g], writer{fn.String(), posOf(en, x.Pos()), bi.Name() + " into the variable's backing store", guardGlobal(b)})
							}
						}
						continue
					}
					args := x.Call.Args
					if x.Call.IsInvoke() {
						if g := baseGlobal(x.Call.Value); isMod(g) {
							writers[g] = append(writers[g], writer{fn.String(), posOf(en, x.Pos()), "method call on the variable", guardGlobal(b)})
						}
					}
					for ai, a := range args {
						g := baseGlobal(a)
						if !isMod(g) {
							continue
						}
						if en.calleeMayWrite(x, ai) {
							writers[g] = append(writers[g], writer{fn.String(), posOf(en, x.Pos()), "address passed to " + x.Call.Value.Name() + ", which may write it", guardGlobal(b)})
						}
					}
				}
			}
		}
	}
	var out []*Obligation
	mk := func(name, kind string, ok bool, detail string) {
		goal := True()
		if !ok {
			goal = False()
		}
		out = append(out, &Obligation{Name: name, Kind: kind, Func: "globals", Goal: goal, Detail: detail})
	}
	initFalse := func(g *ssa.Global) bool {
		c, ok := en.globalInit[g]
		if !ok {
			return true // never initialised: zero value
		}
		if t, ok := c.(*Term); ok {
			return t.IsFalse() || (t.IsConst() && t.k.Sign() == 0)
		}
		return false
	}
	for _, g := range globals {
		name := g.Pkg.Pkg.Name() + "." + g.Name()
		var bad, accepted []string
		for _, w := range writers[g] {
			if w.guard != nil && len(writers[w.guard]) == 0 && initFalse(w.guard) && isMod(w.guard) {
				accepted = append(accepted, fmt.Sprintf("%s %s in %s is reachable only when %s is set, which no function of the module does", w.how, w.pos, w.fn, w.guard.Name()))
				continue
			}
			bad = append(bad, fmt.Sprintf("%s at %s in %s", w.how, w.pos, w.fn))
		}
		detail := "package variable " + name + " is written only during package initialisation"
		if len(accepted) > 0 {
			detail += " (" + strings.Join(accepted, "; ") + ")"
		}
		if len(bad) > 0 {
			detail += "; WRITERS: " + strings.Join(bad, "; ")
		}
		mk(fmt.Sprintf("globals.%s[%s]/global-immutable#1", name, en.cfgName), "global-immutable", len(bad) == 0, detail)
	}
	mk(fmt.Sprintf("globals.concurrency[%s]/no-go#1", en.cfgName), "no-go", len(goStmts) == 0, "the module starts no goroutines: "+strings.Join(goStmts, "; "))
	run.instances = append(run.instances, instanceInfo{Func: "package-level variables", Config: en.cfgName, Alias: "globals", Paths: 1, Obls: len(out)})
	return out
}

// guardGlobal: the block is dominated by the true branch of `if G` for a package variable G.
func guardGlobal(b *ssa.BasicBlock) *ssa.Global {
	for d := b; d != nil; d = d.Idom() {
		p := d.Idom()
		if p == nil {
			break
		}
		iff, ok := p.Instrs[len(p.Instrs)-1].(*ssa.If)
		if !ok || len(p.Succs) != 2 || p.Succs[0] != d || len(d.Preds) != 1 {
			continue
		}
		if ld, ok := iff.Cond.(*ssa.UnOp); ok && ld.Op == token.MUL {
			if g, ok := ld.X.(*ssa.Global); ok {
				return g
			}
		}
	}
	return nil
}

func baseGlobal(v ssa.Value) *ssa.Global {
	for i := 0; i < 64; i++ {
		switch x := v.(type) {
		case *ssa.Global:
			return x
		case *ssa.IndexAddr:
			v = x.X
		case *ssa.FieldAddr:
			v = x.X
		case *ssa.Slice:
			v = x.X
		case *ssa.ChangeType:
			v = x.X
		case *ssa.Convert:
			v = x.X
		case *ssa.MakeInterface:
			v = x.X
		case *ssa.UnOp:
			// a load of a global slice / pointer / map: writes through it hit what the variable refers to
			if g, ok := x.X.(*ssa.Global); ok && x.Op == token.MUL {
				switch g.Type().(*types.Pointer).Elem().Underlying().(type) {
				case *types.Slice, *types.Pointer, *types.Map:
					return g
				}
			}
			return nil
		default:
			return nil
		}
	}
	return nil
}

// calleeMayWrite: may the callee write through argument ai? (its modifies clause; without a
// contract the syntactic may-write analysis of its body; unknown callees: yes, except known readers)
func (en *Engine) calleeMayWrite(c *ssa.Call, ai int) bool {
	fn := c.Call.StaticCallee()
	if fn == nil {
		if c.Call.IsInvoke() {
			switch c.Call.Method.Name() {
			case "Write": // io.Writer / hash.Hash read their argument
				return false
			}
		}
		return true
	}
	if fc, _ := en.contractFor(fn); fc != nil && fc.HasMod && !fc.CTOnly {
		if ai >= len(fn.Params) {
			return false
		}
		pname := fn.Params[ai].Name()
		for _, m := range fc.Modifies {
			if regexp.MustCompile(`\b` + regexp.QuoteMeta(pname) + `\b`).MatchString(m.Src) {
				return true
			}
		}
		return false
	}
	if fn.Blocks != nil {
		if w := en.ctWrites(fn); w != nil {
			return w[ai]
		}
		return true
	}
	key := fn.String()
	for _, i := range ctExternReadonly[key] {
		if i == ai {
			return false
		}
	}
	switch key {
	case "crypto/subtle.ConstantTimeCompare", "bytes.Equal":
		return false
	}
	return true
}
