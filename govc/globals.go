package main

// Package-level variables: initial contents are obtained by executing the
// package initialisers of the tree under test with the same interpreter
// (concretely, from zeroed globals); a separate scan lists every store to a
// global outside initialisers (the `global-immutable` obligations of C15).

import (
	"fmt"
	"sort"
	"strings"

	"golang.org/x/tools/go/ssa"
	"golang.org/x/tools/go/ssa/ssautil"
)

func isInitFunc(fn *ssa.Function) bool {
	n := fn.Name()
	return n == "init" || strings.HasPrefix(n, "init#") || strings.HasPrefix(n, "init$")
}

// RunInits executes the initialisers of the module's packages and records the resulting global contents.
func (en *Engine) RunInits() error {
	en.initMode = true
	defer func() { en.initMode = false }()
	for _, path := range pkgOrder {
		p := en.pkgs[path]
		if p == nil {
			continue
		}
		fn := p.Func("init")
		if fn == nil || fn.Blocks == nil {
			continue
		}
		if err := en.runInit(fn); err != nil {
			return fmt.Errorf("initialiser of %s: %v", path, err)
		}
	}
	return nil
}

func (en *Engine) runInit(fn *ssa.Function) (err error) {
	defer func() {
		if r := recover(); r != nil {
			if ee, ok := r.(execError); ok {
				err = fmt.Errorf("%s", ee.msg)
				return
			}
			panic(r)
		}
	}()
	saveSteps := en.maxSteps
	en.maxSteps = 50000000
	defer func() { en.maxSteps = saveSteps }()
	st := &State{mem: map[*Region]Cell{}, bounds: NewBounds(), sideSeen: map[int]bool{}, typed: map[int]bool{}, cutDone: map[int]bool{}}
	// start from the globals initialised so far (dependencies run first)
	for g, c := range en.globalInit {
		st.mem[en.globalRegion(g)] = c
	}
	fr := &Frame{fn: fn, env: map[ssa.Value]Value{}, visits: map[int]int{}, loopSt: map[int]*loopState{}}
	fr.block = fn.Blocks[0]
	st.frames = []*Frame{fr}
	en.curFunc = "init:" + fn.Pkg.Pkg.Name()
	nobl := len(en.obls)
	work := []*State{st}
	var final *State
	for len(work) > 0 {
		s := work[len(work)-1]
		work = work[:len(work)-1]
		for !s.done {
			work = append(work, en.step(s)...)
		}
		if s.infeasible {
			continue
		}
		if final != nil {
			return fmt.Errorf("initialiser has more than one feasible path")
		}
		final = s
	}
	en.obls = en.obls[:nobl] // initialisers run concretely; nothing to prove
	if final == nil || final.panicked {
		return fmt.Errorf("initialiser does not terminate normally")
	}
	for r, c := range final.mem {
		if r.kind == "global" && r.global != nil {
			en.globalInit[r.global] = c
		}
	}
	return nil
}

type GlobalStore struct {
	Global string
	Func   string
	Pos    string
	Guard  string
}

// ScanGlobalStores lists every store (or address escape through a call) targeting a
// package-level variable of the module outside package initialisers.
func (en *Engine) ScanGlobalStores() []GlobalStore {
	var out []GlobalStore
	var fns []*ssa.Function
	for fn := range ssautil.AllFunctions(en.prog) {
		if fn.Pkg == nil || !modulePkg(fn.Pkg.Pkg.Path()) || fn.Blocks == nil {
			continue
		}
		fns = append(fns, fn)
	}
	sort.Slice(fns, func(i, j int) bool { return fns[i].String() < fns[j].String() })
	for _, fn := range fns {
		if isInitFunc(fn) {
			continue
		}
		if fn.Synthetic != "" && !strings.Contains(fn.Name(), "$") {
			continue
		}
		for _, b := range fn.Blocks {
			for _, ins := range b.Instrs {
				switch x := ins.(type) {
				case *ssa.Store:
					if g := baseGlobal(x.Addr); g != nil && g.Pkg != nil && modulePkg(g.Pkg.Pkg.Path()) {
						out = append(out, GlobalStore{Global: g.Pkg.Pkg.Name() + "." + g.Name(), Func: fn.String(), Pos: posOf(en, x.Pos())})
					}
				case *ssa.Call:
					// passing the address of (part of) a global to a callee that may write it
					for ai, a := range x.Call.Args {
						g := baseGlobal(a)
						if g == nil || g.Pkg == nil || !modulePkg(g.Pkg.Pkg.Path()) {
							continue
						}
						if en.calleeMayWrite(x, ai) {
							out = append(out, GlobalStore{Global: g.Pkg.Pkg.Name() + "." + g.Name(), Func: fn.String(), Pos: posOf(en, x.Pos()), Guard: "address passed to " + x.Call.Value.Name()})
						}
					}
				}
			}
		}
	}
	return out
}

func baseGlobal(v ssa.Value) *ssa.Global {
	for i := 0; i < 64; i++ {
		switch x := v.(type) {
		case *ssa.Global:
			return x
		case *ssa.IndexAddr:
			v = x.X
		case *ssa.FieldAddr:
			v = x.X
		case *ssa.Slice:
			v = x.X
		case *ssa.ChangeType:
			v = x.X
		case *ssa.Convert:
			v = x.X
		case *ssa.UnOp:
			// a load of a global slice header: writes through it hit the slice's backing store
			if g, ok := x.X.(*ssa.Global); ok {
				if _, isSlice := g.Type().Underlying().(interface{ Elem() interface{} }); isSlice {
					return g
				}
			}
			return nil
		default:
			return nil
		}
	}
	return nil
}

// calleeMayWrite: does the callee's contract (or absence of one) allow writing through argument ai?
func (en *Engine) calleeMayWrite(c *ssa.Call, ai int) bool {
	fn := c.Call.StaticCallee()
	if fn == nil {
		return true
	}
	fc, _ := en.contractFor(fn)
	if fc == nil {
		// no contract: be conservative only for module functions with bodies (they are scanned themselves via their parameters)
		return false
	}
	if !fc.HasMod {
		return true
	}
	if ai >= len(fn.Params) {
		return false
	}
	pname := fn.Params[ai].Name()
	for _, m := range fc.Modifies {
		if strings.Contains(m.Src, pname) {
			return true
		}
	}
	return false
}
