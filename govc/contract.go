package main

// Parser for the //@ contract language (Gobra-style structured comments kept
// in comment-only Go files with build tag `verif`, one per package).

import (
	"fmt"
	"go/ast"
	"go/parser"
	"os"
	"path/filepath"
	"regexp"
	"strconv"
	"strings"
)

type SpecExpr struct {
	Src  string
	Expr ast.Expr
	Line string // file:line of the clause
}

type SpecFn struct {
	Name   string
	Params []string
	Body   SpecExpr
}

type AliasPattern [][]string // list of classes, each a list of parameter names that coincide

type CutSpec struct {
	Call   int    // call#N anchor (after the N-th call instruction), or 0
	Anchor string // "before call NAME#K" | "after call NAME#K" | "after store NAME"
	Havoc  []SpecExpr
	Assert SpecExpr
	Keep   bool      // lemma: nothing is havoced and no fact is forgotten
	Split  bool      // split: no obligation; the path forks on the condition
	Assume *SpecExpr // bridge fact assumed (not proved) at this point; listed among the assumptions
}

type LoopSpec struct {
	Invariants []SpecExpr
	Modifies   []SpecExpr
	Names      []SpecExpr // loop variables / cells renamed to fresh variables at every unrolled arrival
	Asserts    []SpecExpr // proved and then assumed at every arrival of a concretely unrolled loop head
	Peel       int // number of leading iterations executed concretely before the invariant takes over
}

type FuncContract struct {
	Pkg      string // package path
	Key      string // "Name" or "(T).Name"
	Params   []string
	Alias    []AliasPattern
	Requires []SpecExpr
	Cases    []SpecExpr // requires-cases: the disjunction is required; the body is verified once per case
	Ensures  []SpecExpr
	AssumedEnsures []SpecExpr // postconditions callers may rely on but which are NOT proved of the body (listed as assumptions)
	Modifies []SpecExpr
	HasMod   bool
	Panics   *SpecExpr // panics iff this holds; nil = must not panic
	MayPanic bool      // panics allowed anywhere (no claim)
	Assumed  bool
	Loops    map[int]*LoopSpec
	Binds    map[string]string // parameter -> global it is required to point to
	HavocGlobals []string      // globals treated as arbitrary when verifying this function
	SliceBind map[string]string // parameter -> global slice variable: an additional instance is verified in which the parameter IS that slice
	Inline   []string          // callees executed from their bodies (not by contract) inside this function
	Cuts     map[int]*CutSpec
	NamedCuts []*CutSpec
	Secret   []SpecExpr
	ElemInv  []ElemInvSpec // element invariants of long arrays (elem-invariant clauses)
	CT       *CTSpec // secrecy clause (ct.go)
	CTOnly   bool    // the block carries only a ct clause: no functional verification of the body
	Hook     bool    // the function lives in a hook file behind an extra build tag (clause `hook`)
	Public   []SpecExpr
	Ghost    []string
	Line     string
	Lemmas   []string
}

// ElemInvSpec: `elem-invariant <array lvalue> : <predicate over elem>`. Every element of the array
// satisfies the predicate whenever control is in the function (and at entry/exit if the array
// belongs to a parameter): assumed when an element is addressed, proved after every write to an
// element (store instruction or callee modifies clause). No quantifier is involved.
type ElemInvSpec struct {
	Arr  SpecExpr
	Pred SpecExpr
}

type AxiomDecl struct {
	Name string
	Body SpecExpr
	Tag  string // e.g. M1, B2: which trusted-base item it belongs to
}

type PkgContracts struct {
	Pkg     string
	Consts  map[string]SpecExpr
	Classes map[string][]SpecExpr
	Specs   map[string]*SpecFn
	Funcs   map[string]*FuncContract
	UFuns   map[string]UFDecl
	Axioms  []AxiomDecl
	Lemmas  []AxiomDecl
	Raw     string
}

func newPkgContracts(pkg string) *PkgContracts {
	return &PkgContracts{Pkg: pkg, Consts: map[string]SpecExpr{}, Classes: map[string][]SpecExpr{}, Specs: map[string]*SpecFn{}, Funcs: map[string]*FuncContract{}, UFuns: map[string]UFDecl{}}
}

// rewriteImplies turns top-level `a ==> b` into implies(a, b) (right assoc),
// recursively inside parentheses and call arguments.
func rewriteImplies(s string) string {
	// find top-level ==>
	depth := 0
	for i := 0; i+2 < len(s); i++ {
		switch s[i] {
		case '(', '[', '{':
			depth++
		case ')', ']', '}':
			depth--
		}
		if depth == 0 && strings.HasPrefix(s[i:], "==>") {
			return "implies(" + rewriteImplies(strings.TrimSpace(s[:i])) + ", " + rewriteImplies(strings.TrimSpace(s[i+3:])) + ")"
		}
	}
	// no top-level ==>: recurse into bracketed groups
	var sb strings.Builder
	i := 0
	for i < len(s) {
		c := s[i]
		if c == '(' || c == '[' {
			// find matching close
			d := 0
			j := i
			for ; j < len(s); j++ {
				if s[j] == '(' || s[j] == '[' {
					d++
				} else if s[j] == ')' || s[j] == ']' {
					d--
					if d == 0 {
						break
					}
				}
			}
			if j >= len(s) {
				sb.WriteString(s[i:])
				break
			}
			inner := s[i+1 : j]
			sb.WriteByte(c)
			// split on top-level commas so each argument is rewritten separately
			parts := splitTop(inner, ',')
			for k, p := range parts {
				if k > 0 {
					sb.WriteByte(',')
				}
				sb.WriteString(rewriteImplies(p))
			}
			sb.WriteByte(s[j])
			i = j + 1
			continue
		}
		sb.WriteByte(c)
		i++
	}
	return sb.String()
}

func splitTop(s string, sep byte) []string {
	var parts []string
	depth := 0
	last := 0
	for i := 0; i < len(s); i++ {
		switch s[i] {
		case '(', '[', '{':
			depth++
		case ')', ']', '}':
			depth--
		}
		if depth == 0 && s[i] == sep {
			parts = append(parts, s[last:i])
			last = i + 1
		}
	}
	parts = append(parts, s[last:])
	return parts
}

func parseSpecExpr(src, line string) (SpecExpr, error) {
	r := rewriteImplies(strings.TrimSpace(src))
	e, err := parser.ParseExpr(r)
	if err != nil {
		return SpecExpr{}, fmt.Errorf("%s: cannot parse spec expression %q: %v", line, src, err)
	}
	return SpecExpr{Src: strings.TrimSpace(src), Expr: e, Line: line}, nil
}

var reFunc = regexp.MustCompile(`^func\s+(\(\*?[A-Za-z0-9_]+\)\.)?([A-Za-z0-9_$]+)\s*\(([^)]*)\)\s*$`)
var reSpec = regexp.MustCompile(`^spec\s+([A-Za-z0-9_]+)\s*\(([^)]*)\)\s*=\s*(.*)$`)
var reConst = regexp.MustCompile(`^const\s+([A-Za-z0-9_]+)\s*=\s*(.*)$`)
var reClass = regexp.MustCompile(`^class\s+([A-Za-z0-9_]+)\s*=\s*\[(.*)\]\s*$`)
var reUfun = regexp.MustCompile(`^ufun\s+([A-Za-z0-9_]+)\s*\(([^)]*)\)\s*([A-Za-z0-9_]+)\s*$`)
var reAxiom = regexp.MustCompile(`^(axiom|lemma)\s+([A-Za-z0-9_\-]+)(\s*\[[A-Za-z0-9_,\- ]+\])?\s*:\s*(.*)$`)
var reCut = regexp.MustCompile(`^cut\s+call#([0-9]+)\s+havoc\s+([^:]*):\s*(.*)$`)
var reCutNamed = regexp.MustCompile(`^cut\s+((?:before|after)\s+(?:call|store)\s+[A-Za-z0-9_.$]+(?:#[0-9]+)?|at\s+loop#[0-9]+)\s+havoc\s+([^:]*):\s*(.*)$`)
var reLoop = regexp.MustCompile(`^loop#([0-9]+)\s+(invariant|modifies|peel|assert|name)\s+(.*)$`)

func sortOf(s string) Sort {
	switch s {
	case "Int":
		return SInt
	case "Bool":
		return SBool
	case "Arr":
		return SArr
	}
	return Sort(s)
}

// ParseContracts reads one contract file; configOK decides whether a
// `config` section applies to the loaded build configuration.
func ParseContracts(file, pkg string, configOK func(pred string) bool) (*PkgContracts, error) {
	data, err := os.ReadFile(file)
	if err != nil {
		return nil, err
	}
	pc := newPkgContracts(pkg)
	pc.Raw = string(data)
	active := true
	var cur *FuncContract
	base := filepath.Base(file)
	for ln, raw := range strings.Split(string(data), "\n") {
		t := strings.TrimSpace(raw)
		if !strings.HasPrefix(t, "//@") {
			continue
		}
		body := strings.TrimSpace(t[3:])
		// strip trailing comment introduced by " // "
		if i := strings.Index(body, " // "); i >= 0 {
			body = strings.TrimSpace(body[:i])
		}
		if body == "" {
			continue
		}
		line := fmt.Sprintf("%s:%d", base, ln+1)
		if strings.HasPrefix(body, "config ") {
			active = true
			for _, p := range strings.Fields(body[7:]) {
				neg := strings.HasPrefix(p, "!")
				p = strings.TrimPrefix(p, "!")
				v := p == "any" || configOK(p)
				if neg {
					v = !v
				}
				if !v {
					active = false
				}
			}
			cur = nil
			continue
		}
		if !active {
			continue
		}
		if m := reConst.FindStringSubmatch(body); m != nil {
			e, err := parseSpecExpr(m[2], line)
			if err != nil {
				return nil, err
			}
			pc.Consts[m[1]] = e
			cur = nil
			continue
		}
		if m := reClass.FindStringSubmatch(body); m != nil {
			var es []SpecExpr
			for _, p := range splitTop(m[2], ',') {
				e, err := parseSpecExpr(p, line)
				if err != nil {
					return nil, err
				}
				es = append(es, e)
			}
			pc.Classes[m[1]] = es
			cur = nil
			continue
		}
		if m := reSpec.FindStringSubmatch(body); m != nil {
			e, err := parseSpecExpr(m[3], line)
			if err != nil {
				return nil, err
			}
			pc.Specs[m[1]] = &SpecFn{Name: m[1], Params: fieldsComma(m[2]), Body: e}
			cur = nil
			continue
		}
		if m := reUfun.FindStringSubmatch(body); m != nil {
			d := UFDecl{Name: m[1], Res: sortOf(m[3])}
			for _, a := range fieldsComma(m[2]) {
				d.Args = append(d.Args, sortOf(a))
			}
			pc.UFuns[m[1]] = d
			cur = nil
			continue
		}
		if strings.HasPrefix(body, "usort ") {
			TS.sorts[strings.TrimSpace(body[6:])] = true
			cur = nil
			continue
		}
		if m := reAxiom.FindStringSubmatch(body); m != nil {
			e, err := parseSpecExpr(m[4], line)
			if err != nil {
				return nil, err
			}
			d := AxiomDecl{Name: m[2], Body: e, Tag: strings.Trim(strings.TrimSpace(m[3]), "[]")}
			if m[1] == "axiom" {
				pc.Axioms = append(pc.Axioms, d)
			} else {
				pc.Lemmas = append(pc.Lemmas, d)
			}
			cur = nil
			continue
		}
		if m := reFunc.FindStringSubmatch(body); m != nil {
			key := m[2]
			if m[1] != "" {
				key = strings.TrimSuffix(m[1], ".") + "." + m[2]
			}
			cur = &FuncContract{Pkg: pkg, Key: key, Params: fieldsComma(m[3]), Loops: map[int]*LoopSpec{}, Cuts: map[int]*CutSpec{}, Binds: map[string]string{}, SliceBind: map[string]string{}, Line: line}
			if _, dup := pc.Funcs[key]; dup {
				return nil, fmt.Errorf("%s: duplicate contract for %s", line, key)
			}
			pc.Funcs[key] = cur
			continue
		}
		if cur == nil {
			return nil, fmt.Errorf("%s: clause outside a func contract: %q", line, body)
		}
		kw, rest := body, ""
		if i := strings.IndexAny(body, " \t"); i >= 0 {
			kw, rest = body[:i], strings.TrimSpace(body[i+1:])
		}
		switch {
		case kw == "assume-ensures":
			e, err := parseSpecExpr(rest, line)
			if err != nil {
				return nil, err
			}
			cur.AssumedEnsures = append(cur.AssumedEnsures, e)
		case kw == "requires" || kw == "ensures":
			e, err := parseSpecExpr(rest, line)
			if err != nil {
				return nil, err
			}
			if kw == "requires" {
				cur.Requires = append(cur.Requires, e)
			} else {
				cur.Ensures = append(cur.Ensures, e)
			}
		case kw == "cases":
			for _, p := range strings.Split(rest, " | ") {
				e, err := parseSpecExpr(p, line)
				if err != nil {
					return nil, err
				}
				cur.Cases = append(cur.Cases, e)
			}
		case kw == "modifies":
			cur.HasMod = true
			if rest != "nothing" {
				for _, p := range splitTop(rest, ',') {
					e, err := parseSpecExpr(p, line)
					if err != nil {
						return nil, err
					}
					cur.Modifies = append(cur.Modifies, e)
				}
			}
		case kw == "panics":
			if rest == "maybe" {
				cur.MayPanic = true
				break
			}
			e, err := parseSpecExpr(rest, line)
			if err != nil {
				return nil, err
			}
			cur.Panics = &e
		case kw == "bind":
			// bind p = &Global
			parts := strings.SplitN(rest, "=", 2)
			if len(parts) != 2 {
				return nil, fmt.Errorf("%s: bad bind clause", line)
			}
			cur.Binds[strings.TrimSpace(parts[0])] = strings.TrimPrefix(strings.TrimSpace(parts[1]), "&")
		case kw == "inline":
			cur.Inline = append(cur.Inline, fieldsComma(rest)...)
		case kw == "slicebind":
			parts := strings.SplitN(rest, "=", 2)
			if len(parts) != 2 {
				return nil, fmt.Errorf("%s: bad slicebind clause", line)
			}
			cur.SliceBind[strings.TrimSpace(parts[0])] = strings.TrimSpace(parts[1])
		case kw == "havoc-global":
			cur.HavocGlobals = append(cur.HavocGlobals, fieldsComma(rest)...)
		case kw == "assumed":
			cur.Assumed = true
		case kw == "elem-invariant":
			i := strings.Index(rest, ":")
			if i < 0 {
				return nil, fmt.Errorf("%s: bad elem-invariant clause", line)
			}
			a, err := parseSpecExpr(strings.TrimSpace(rest[:i]), line)
			if err != nil {
				return nil, err
			}
			pr, err := parseSpecExpr(strings.TrimSpace(rest[i+1:]), line)
			if err != nil {
				return nil, err
			}
			cur.ElemInv = append(cur.ElemInv, ElemInvSpec{Arr: a, Pred: pr})
		case kw == "ct":
			c, err := parseCTClause(rest)
			if err != nil {
				return nil, fmt.Errorf("%s: %v", line, err)
			}
			cur.CT = c
		case kw == "ct-only":
			cur.CTOnly = true
		case kw == "hook":
			cur.Hook = true
		case kw == "ghost":
			cur.Ghost = append(cur.Ghost, fieldsComma(rest)...)
		case kw == "uses":
			cur.Lemmas = append(cur.Lemmas, fieldsComma(rest)...)
		case kw == "secret" || kw == "public":
			for _, p := range splitTop(rest, ',') {
				e, err := parseSpecExpr(p, line)
				if err != nil {
					return nil, err
				}
				if kw == "secret" {
					cur.Secret = append(cur.Secret, e)
				} else {
					cur.Public = append(cur.Public, e)
				}
			}
		case kw == "alias":
			for _, pat := range strings.Split(rest, "|") {
				var ap AliasPattern
				for _, cls := range strings.Split(pat, ",") {
					var names []string
					for _, n := range strings.Split(cls, "==") {
						names = append(names, strings.TrimSpace(n))
					}
					if len(names) >= 2 {
						ap = append(ap, names)
					}
				}
				if len(ap) > 0 {
					cur.Alias = append(cur.Alias, ap)
				}
			}
		case kw == "cut" || kw == "lemma" || kw == "split":
			isSplit := kw == "split"
			if isSplit {
				// split <anchor> : cond   ==  a lemma-like anchor at which the path forks on cond (case analysis)
				kw = "lemma"
				body = "lemma" + body[len("split"):]
			}
			if kw == "lemma" {
				// lemma <anchor> : expr   ==  cut <anchor> havoc : expr, keeping all facts
				i := strings.Index(body, ":")
				if i < 0 {
					return nil, fmt.Errorf("%s: bad lemma clause", line)
				}
				body = "cut " + strings.TrimSpace(body[5:i]) + " havoc " + body[i:]
			}
			m := reCut.FindStringSubmatch(body)
			named := false
			if m == nil {
				m = reCutNamed.FindStringSubmatch(body)
				named = true
			}
			if m == nil {
				return nil, fmt.Errorf("%s: bad cut clause %q", line, body)
			}
			n := 0
			cs := &CutSpec{Keep: kw == "lemma"}
			if named {
				cs.Anchor = strings.Join(strings.Fields(m[1]), " ")
			} else {
				n, _ = strconv.Atoi(m[1])
				cs.Call = n
			}
			for _, p := range splitTop(m[2], ',') {
				if strings.TrimSpace(p) == "" {
					continue
				}
				e, err := parseSpecExpr(p, line)
				if err != nil {
					return nil, err
				}
				cs.Havoc = append(cs.Havoc, e)
			}
			body3 := m[3]
			if i := strings.Index(body3, ";; assume "); i >= 0 {
				ae, err := parseSpecExpr(body3[i+10:], line)
				if err != nil {
					return nil, err
				}
				cs.Assume = &ae
				body3 = body3[:i]
			}
			e, err := parseSpecExpr(body3, line)
			if err != nil {
				return nil, err
			}
			cs.Assert = e
			if named {
				cs.Split = isSplit
				cur.NamedCuts = append(cur.NamedCuts, cs)
			} else {
				cur.Cuts[n] = cs
			}
		case strings.HasPrefix(kw, "loop#"):
			m := reLoop.FindStringSubmatch(body)
			if m == nil {
				return nil, fmt.Errorf("%s: bad loop clause %q", line, body)
			}
			n, _ := strconv.Atoi(m[1])
			ls := cur.Loops[n]
			if ls == nil {
				ls = &LoopSpec{}
				cur.Loops[n] = ls
			}
			if m[2] == "name" {
				for _, p := range splitTop(m[3], ',') {
					e, err := parseSpecExpr(p, line)
					if err != nil {
						return nil, err
					}
					ls.Names = append(ls.Names, e)
				}
			} else if m[2] == "assert" {
				e, err := parseSpecExpr(m[3], line)
				if err != nil {
					return nil, err
				}
				ls.Asserts = append(ls.Asserts, e)
			} else if m[2] == "peel" {
				ls.Peel, _ = strconv.Atoi(strings.TrimSpace(m[3]))
			} else if m[2] == "invariant" {
				e, err := parseSpecExpr(m[3], line)
				if err != nil {
					return nil, err
				}
				ls.Invariants = append(ls.Invariants, e)
			} else {
				for _, p := range splitTop(m[3], ',') {
					e, err := parseSpecExpr(p, line)
					if err != nil {
						return nil, err
					}
					ls.Modifies = append(ls.Modifies, e)
				}
			}
		default:
			return nil, fmt.Errorf("%s: unknown clause %q", line, body)
		}
	}
	return pc, nil
}

func fieldsComma(s string) []string {
	var r []string
	for _, p := range strings.Split(s, ",") {
		p = strings.TrimSpace(p)
		if p != "" {
			r = append(r, p)
		}
	}
	return r
}
