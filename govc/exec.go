package main

import (
	"fmt"
	"go/ast"
	"go/constant"
	"go/token"
	"go/types"
	"math/big"
	"strings"

	"golang.org/x/tools/go/ssa"
)

func posOf(en *Engine, p token.Pos) string {
	if !p.IsValid() {
		return ""
	}
	pp := en.prog.Fset.Position(p)
	f := pp.Filename
	if i := strings.Index(f, "/repo/"); i >= 0 {
		f = f[i+6:]
	}
	return fmt.Sprintf("%s:%d", f, pp.Line)
}

func (en *Engine) constValue(c *ssa.Const) Value {
	t := c.Type()
	if c.Value == nil {
		return zeroValue(t)
	}
	switch c.Value.Kind() {
	case constant.Int:
		if v, ok := constant.Val(c.Value).(*big.Int); ok {
			return Const(v)
		}
		if v, ok := constant.Val(c.Value).(int64); ok {
			return ConstI(v)
		}
	case constant.Bool:
		return BoolT(constant.BoolVal(c.Value))
	case constant.String:
		s := constant.StringVal(c.Value)
		return StringV{Const: &s}
	}
	return OpaqueV{What: "const " + c.String()}
}

func (en *Engine) get(st *State, f *Frame, v ssa.Value) Value {
	switch x := v.(type) {
	case *ssa.Const:
		return en.constValue(x)
	case *ssa.Global:
		return PtrV{R: en.globalRegion(x)}
	case *ssa.Function:
		return ClosureV{Fn: x}
	case *ssa.Builtin:
		return OpaqueV{What: "builtin " + x.Name()}
	}
	if r, ok := f.env[v]; ok {
		return r
	}
	fail("no value for %s (%T) in %s", v.Name(), v, f.fn.Name())
	return nil
}

func (en *Engine) term(st *State, f *Frame, v ssa.Value) *Term {
	r := en.get(st, f, v)
	t, ok := r.(*Term)
	if !ok {
		fail("expected scalar for %s in %s, got %T", v.Name(), f.fn.Name(), r)
	}
	return t
}

// prove-or-assume helper for safety conditions: emits an obligation unless trivially true.
func (en *Engine) require(st *State, kind string, cond *Term, detail, pos string) {
	if cond.IsTrue() {
		return
	}
	// cheap interval check
	if en.intervalHolds(st, cond) {
		st.addSide(cond, detail)
		return
	}
	en.flushSide(st)
	en.addObl(st, kind, cond, detail, pos)
	st.assume(cond)
}

func (en *Engine) intervalHolds(st *State, c *Term) bool {
	switch c.op {
	case OAnd:
		for _, a := range c.args {
			if !en.intervalHolds(st, a) {
				return false
			}
		}
		return true
	case OLe, OLt:
		d := st.bounds.Interval(Sub(c.args[0], c.args[1]))
		if d.hi == nil {
			return false
		}
		if c.op == OLe {
			return d.hi.Sign() <= 0
		}
		return d.hi.Sign() < 0
	}
	return false
}

// step executes one instruction of the top frame. It returns extra states created by forking.
func (en *Engine) step(st *State) []*State {
	f := st.top()
	if f.pc >= len(f.block.Instrs) {
		fail("fell off block %d of %s", f.block.Index, f.fn.Name())
	}
	if len(st.frames) == 1 && f.spec != nil && len(f.spec.fc.NamedCuts) > 0 {
		en.namedCuts(st, f)
	}
	if len(st.frames) == 1 && f.spec != nil && len(f.spec.fc.Cuts) > 0 && f.pc > 0 {
		if c, ok := f.block.Instrs[f.pc-1].(*ssa.Call); ok {
			if n := en.callOrdinal(f.fn, c); n > 0 {
				if cs, ok := f.spec.fc.Cuts[n]; ok && !st.cutDone[n] {
					st.cutDone[n] = true
					en.applyCut(st, f, cs)
				}
			}
		}
	}
	if st.sidePending >= en.sideBatch {
		en.flushSide(st)
	}
	ins := f.block.Instrs[f.pc]
	f.pc++
	st.steps++
	if st.steps > en.maxSteps {
		fail("step limit exceeded in %s (loop without invariant?)", f.fn.Name())
	}
	switch x := ins.(type) {
	case *ssa.DebugRef:
		// remember source names of registers (a variable assigned once has no phi to carry its name)
		if id, ok := x.Expr.(*ast.Ident); ok && !x.IsAddr {
			switch x.X.(type) {
			case *ssa.Phi, *ssa.Alloc, *ssa.Parameter, *ssa.Const:
			default:
				if _, seen := en.debugNames[x.X]; !seen {
					en.debugNames[x.X] = id.Name
				}
			}
		}
	case *ssa.Alloc:
		t := x.Type().(*types.Pointer).Elem()
		kind := "local"
		if x.Heap {
			kind = "heap"
		}
		nm := x.Comment
		if nm == "" {
			nm = x.Name()
		}
		r := en.newRegion(f.fn.Name()+"."+nm, t, kind)
		st.mem[r] = zeroCell(t)
		f.env[x] = PtrV{R: r}
	case *ssa.Phi:
		// evaluated on block entry
	case *ssa.BinOp:
		f.env[x] = en.execBinOp(st, f, x)
	case *ssa.UnOp:
		f.env[x] = en.execUnOp(st, f, x)
	case *ssa.IndexAddr:
		f.env[x] = en.execIndexAddr(st, f, x)
		if p, ok := f.env[x].(PtrV); ok && !st.done {
			en.elemInvAssume(st, p)
		}
	case *ssa.FieldAddr:
		p := en.get(st, f, x.X).(PtrV)
		if p.R == nil {
			en.require(st, "nil", False(), "nil pointer field access", posOf(en, x.Pos()))
			st.infeasible = true
			st.done = true
			return nil
		}
		f.env[x] = PtrV{R: p.R, Path: appendPath(p.Path, PathEl{Field: x.Field})}
	case *ssa.Field:
		a := en.get(st, f, x.X).(AggV)
		sc := a.C.(*StructCell)
		ft := a.T.Underlying().(*types.Struct).Field(x.Field).Type()
		f.env[x] = cellToValue(sc.Fields[x.Field], ft)
	case *ssa.Index:
		switch a := en.get(st, f, x.X).(type) {
		case AggV:
			idx := en.term(st, f, x.Index)
			at := a.T.Underlying().(*types.Array)
			en.require(st, "index", And(Le(ConstI(0), idx), Lt(idx, ConstI(at.Len()))), "array index in range", posOf(en, x.Pos()))
			f.env[x] = cellToValue(en.indexCell(st, a.C, idx, at.Elem()), at.Elem())
		case StringV:
			idx := en.term(st, f, x.Index)
			f.env[x] = en.stringIndex(st, a, idx, posOf(en, x.Pos()))
		default:
			fail("Index on %T", a)
		}
	case *ssa.Store:
		p, ok := en.get(st, f, x.Addr).(PtrV)
		if !ok {
			fail("store through non-pointer")
		}
		if p.R == nil {
			en.require(st, "nil", False(), "store through nil pointer", posOf(en, x.Pos()))
			st.done, st.infeasible = true, true
			return nil
		}
		en.noteWrite(st, p, posOf(en, x.Pos()))
		if p.View != 0 && p.Word != nil {
			en.viewStore(st, p, en.get(st, f, x.Val).(*Term))
		} else {
			en.store(st, p, en.get(st, f, x.Val))
		}
		en.elemInvCheck(st, p.R, p.Path, posOf(en, x.Pos()))
	case *ssa.Convert:
		f.env[x] = en.execConvert(st, f, x)
	case *ssa.ChangeType:
		f.env[x] = en.get(st, f, x.X)
	case *ssa.MakeInterface:
		f.env[x] = IfaceV{Dyn: x.X.Type(), V: en.get(st, f, x.X)}
	case *ssa.ChangeInterface:
		f.env[x] = en.get(st, f, x.X)
	case *ssa.MakeClosure:
		var b []Value
		for _, v := range x.Bindings {
			b = append(b, en.get(st, f, v))
		}
		f.env[x] = ClosureV{Fn: x.Fn.(*ssa.Function), Bind: b}
	case *ssa.MakeSlice:
		et := x.Type().Underlying().(*types.Slice).Elem()
		ln := en.term(st, f, x.Len)
		cp := en.term(st, f, x.Cap)
		en.require(st, "makeslice", And(Le(ConstI(0), ln), Le(ln, cp)), "make: 0 <= len <= cap", posOf(en, x.Pos()))
		f.env[x] = en.makeSlice(st, f.fn.Name()+".make", et, ln, cp)
	case *ssa.Slice:
		f.env[x] = en.execSlice(st, f, x)
	case *ssa.Extract:
		tv := en.get(st, f, x.Tuple).(TupleV)
		f.env[x] = tv[x.Index]
	case *ssa.TypeAssert:
		return en.execTypeAssert(st, f, x)
	case *ssa.Call:
		return en.execCall(st, f, x)
	case *ssa.Jump:
		return en.enterBlock(st, f, f.block.Succs[0])
	case *ssa.If:
		c := en.term(st, f, x.Cond)
		if c.IsTrue() {
			return en.enterBlock(st, f, f.block.Succs[0])
		}
		if c.IsFalse() {
			return en.enterBlock(st, f, f.block.Succs[1])
		}
		// interval-decidable?
		if en.intervalHolds(st, c) {
			st.addSide(c, "branch condition decided by range")
			return en.enterBlock(st, f, f.block.Succs[0])
		}
		if nc := Not(c); en.intervalHolds(st, nc) {
			st.addSide(nc, "branch condition decided by range")
			return en.enterBlock(st, f, f.block.Succs[1])
		}
		en.flushSide(st)
		other := st.clone()
		st.assume(c)
		st.trace = append(st.trace, fmt.Sprintf("%s: then", posOf(en, x.Cond.Pos())))
		other.assume(Not(c))
		other.trace = append(other.trace, fmt.Sprintf("%s: else", posOf(en, x.Cond.Pos())))
		var extra []*State
		extra = append(extra, en.enterBlock(st, st.top(), st.top().block.Succs[0])...)
		of := other.top()
		extra = append(extra, other)
		extra = append(extra, en.enterBlock(other, of, of.block.Succs[1])...)
		en.paths++
		if en.paths > en.maxPaths {
			fail("path limit exceeded in %s", en.curFunc)
		}
		return extra
	case *ssa.Return:
		var res Value
		switch len(x.Results) {
		case 0:
			res = nil
		case 1:
			res = en.get(st, f, x.Results[0])
		default:
			var tv TupleV
			for _, r := range x.Results {
				tv = append(tv, en.get(st, f, r))
			}
			res = tv
		}
		return en.doReturn(st, res)
	case *ssa.Panic:
		en.flushSide(st)
		st.done = true
		st.panicked = true
		st.panicMsg = "explicit panic at " + posOf(en, x.Pos())
	case *ssa.Range, *ssa.Next, *ssa.Lookup, *ssa.MakeMap, *ssa.MapUpdate, *ssa.Go, *ssa.Defer, *ssa.RunDefers, *ssa.Send, *ssa.Select, *ssa.MakeChan:
		fail("unsupported instruction %T in %s", ins, f.fn.Name())
	default:
		fail("unhandled instruction %T in %s", ins, f.fn.Name())
	}
	return nil
}

func (en *Engine) doReturn(st *State, res Value) []*State {
	f := st.top()
	if len(st.frames) == 1 {
		en.flushSide(st)
		st.done = true
		st.result = res
		return nil
	}
	st.frames = st.frames[:len(st.frames)-1]
	caller := st.top()
	if f.retTo != nil {
		caller.env[f.retTo] = res
	}
	return nil
}

func (en *Engine) enterBlock(st *State, f *Frame, b *ssa.BasicBlock) []*State {
	prev := f.block
	// loop invariant handling
	if f.spec != nil {
		if extra, handled := en.loopHead(st, f, prev, b); handled {
			return extra
		}
	}
	f.visits[b.Index]++
	if f.visits[b.Index] > 100000 {
		fail("block %d of %s visited too often (loop without invariant?)", b.Index, f.fn.Name())
	}
	// evaluate phis simultaneously
	var idx = -1
	for i, p := range b.Preds {
		if p == prev {
			idx = i
			break
		}
	}
	type pv struct {
		phi *ssa.Phi
		v   Value
	}
	var pvs []pv
	for _, ins := range b.Instrs {
		phi, ok := ins.(*ssa.Phi)
		if !ok {
			break
		}
		if idx < 0 {
			fail("phi without matching predecessor")
		}
		pvs = append(pvs, pv{phi, en.get(st, f, phi.Edges[idx])})
	}
	for _, p := range pvs {
		f.env[p.phi] = p.v
	}
	f.prev = prev
	f.block = b
	f.pc = 0
	return nil
}

func (en *Engine) execBinOp(st *State, f *Frame, x *ssa.BinOp) Value {
	xv, yv := en.get(st, f, x.X), en.get(st, f, x.Y)
	switch x.Op {
	case token.EQL, token.NEQ, token.LSS, token.LEQ, token.GTR, token.GEQ:
		switch a := xv.(type) {
		case *Term:
			b, ok := yv.(*Term)
			if !ok {
				fail("comparison of scalar with %T", yv)
			}
			if a.sort == SBool {
				if x.Op == token.EQL {
					return Eq(a, b)
				}
				return Ne(a, b)
			}
			return en.compare(x.Op, a, b)
		case PtrV:
			b, ok := yv.(PtrV)
			if !ok {
				fail("pointer compared with %T", yv)
			}
			r := en.ptrCompare(st, a, b)
			if x.Op == token.NEQ {
				return Not(r)
			}
			return r
		case IfaceV:
			b, ok := yv.(IfaceV)
			if !ok {
				fail("interface compared with %T", yv)
			}
			r := en.ifaceEq(a, b)
			if x.Op == token.NEQ {
				return Not(r)
			}
			return r
		case SliceV:
			// only comparison with nil is legal
			r := BoolT(a.R == nil)
			if a.R != nil {
				r = False()
			}
			if x.Op == token.NEQ {
				return Not(r)
			}
			return r
		case NilV:
			if _, ok := yv.(NilV); ok {
				return BoolT(x.Op == token.EQL)
			}
			if _, ok := yv.(ClosureV); ok {
				return BoolT(x.Op == token.NEQ)
			}
		case ClosureV:
			if _, ok := yv.(NilV); ok {
				return BoolT(x.Op == token.NEQ)
			}
		case OpaqueV:
			// comparisons of opaque values (e.g. error != nil) are resolved by the call model
			fail("comparison of opaque value %s", a.What)
		case StringV:
			if b, ok := yv.(StringV); ok && a.Const != nil && b.Const != nil {
				switch x.Op {
				case token.EQL:
					return BoolT(*a.Const == *b.Const)
				case token.NEQ:
					return BoolT(*a.Const != *b.Const)
				}
			}
			fail("string comparison unsupported")
		}
		fail("unsupported comparison on %T", xv)
	}
	a, ok1 := xv.(*Term)
	b, ok2 := yv.(*Term)
	if sx, ok := xv.(StringV); ok && x.Op == token.ADD {
		_ = sx
		return OpaqueV{What: "string concat"}
	}
	if _, ok := xv.(OpaqueV); ok && x.Op == token.ADD {
		return OpaqueV{What: "string concat"}
	}
	if !ok1 || !ok2 {
		fail("binop %s on %T,%T", x.Op, xv, yv)
	}
	if a.sort == SBool {
		switch x.Op {
		case token.AND:
			return And(a, b)
		case token.OR:
			return Or(a, b)
		}
		fail("bool binop %s", x.Op)
	}
	return en.binop(st, x.Op, a, b, x.X.Type(), x.Y.Type())
}

func (en *Engine) ifaceEq(a, b IfaceV) *Term {
	if a.Dyn == nil && a.Sym == nil {
		if b.Dyn == nil && b.Sym == nil {
			return True()
		}
		if b.Dyn != nil {
			return False()
		}
		return Eq(b.Sym, ConstI(0))
	}
	if b.Dyn == nil && b.Sym == nil {
		return en.ifaceEq(b, a)
	}
	if a.Sym != nil && b.Sym != nil {
		return Eq(a.Sym, b.Sym)
	}
	fail("unsupported interface comparison")
	return nil
}

func (en *Engine) ptrCompare(st *State, a, b PtrV) *Term {
	if a.R == nil && b.R == nil {
		return True()
	}
	if a.R == nil || b.R == nil {
		return False()
	}
	switch pathRel(a, b) {
	case 0:
		return True()
	case 1:
		return False()
	}
	// same region, symbolic indices
	if len(a.Path) == len(b.Path) {
		var cs []*Term
		for i := range a.Path {
			if a.Path[i].Idx != nil && b.Path[i].Idx != nil {
				cs = append(cs, Eq(a.Path[i].Idx, b.Path[i].Idx))
			} else if a.Path[i].Field != b.Path[i].Field {
				return False()
			}
		}
		return And(cs...)
	}
	return False()
}

func (en *Engine) execUnOp(st *State, f *Frame, x *ssa.UnOp) Value {
	v := en.get(st, f, x.X)
	switch x.Op {
	case token.MUL:
		p, ok := v.(PtrV)
		if !ok {
			fail("load through %T", v)
		}
		if p.R == nil {
			en.require(st, "nil", False(), "nil pointer dereference", posOf(en, x.Pos()))
			st.done, st.infeasible = true, true
			return OpaqueV{What: "nil deref"}
		}
		en.noteRead(st, p, posOf(en, x.Pos()))
		if p.View != 0 && p.Word != nil {
			return en.viewLoad(st, p)
		}
		return en.load(st, p, x.Type())
	case token.NOT:
		return Not(v.(*Term))
	case token.SUB:
		bits, signed, _ := intInfo(x.Type())
		return en.wrap(st, Neg(v.(*Term)), bits, signed, "negation does not wrap")
	case token.XOR:
		bits, signed, _ := intInfo(x.Type())
		return en.bitnot(st, v.(*Term), bits, signed)
	}
	fail("unsupported unary op %s", x.Op)
	return nil
}

func (en *Engine) execIndexAddr(st *State, f *Frame, x *ssa.IndexAddr) Value {
	idx := en.term(st, f, x.Index)
	switch b := en.get(st, f, x.X).(type) {
	case PtrV:
		if b.R == nil {
			en.require(st, "nil", False(), "index through nil array pointer", posOf(en, x.Pos()))
			st.done, st.infeasible = true, true
			return PtrV{}
		}
		if b.View != 0 {
			en.require(st, "index", And(Le(ConstI(0), idx), Lt(idx, ConstI(int64(b.Words)))), "index into word view in range", posOf(en, x.Pos()))
			nb := b
			nb.Word = idx
			return nb
		}
		at := x.X.Type().Underlying().(*types.Pointer).Elem().Underlying().(*types.Array)
		en.require(st, "index", And(Le(ConstI(0), idx), Lt(idx, ConstI(at.Len()))), fmt.Sprintf("index into [%d]%s in range", at.Len(), at.Elem()), posOf(en, x.Pos()))
		return PtrV{R: b.R, Path: appendPath(b.Path, PathEl{Idx: idx})}
	case SliceV:
		en.require(st, "index", And(Le(ConstI(0), idx), Lt(idx, b.Len)), "slice index in range", posOf(en, x.Pos()))
		if b.R == nil {
			// nil slice has len 0: the requirement above is unsatisfiable
			st.done, st.infeasible = true, true
			return PtrV{}
		}
		return en.sliceElemPtr(b, idx)
	}
	fail("IndexAddr on %T", en.get(st, f, x.X))
	return nil
}

func (en *Engine) makeSlice(st *State, name string, et types.Type, ln, cp *Term) SliceV {
	if n, ok := cp.ConstInt(); ok && n <= 4096 {
		at := types.NewArray(et, n)
		r := en.newRegion(name, at, "heap")
		st.mem[r] = zeroCell(at)
		return SliceV{R: r, Off: ConstI(0), Len: ln, Cap: cp, Elem: et}
	}
	// symbolic length: zero-filled symbolic array
	r := en.newRegion(name, types.NewSlice(et), "heap")
	arr := FreshVar(name+".arr", SArr)
	k := FreshVar("k", SInt)
	st.assume(Forall(k, Eq(Select(arr, k), ConstI(0))))
	st.mem[r] = &SymArrCell{Arr: arr, N: cp, Elem: et}
	return SliceV{R: r, Off: ConstI(0), Len: ln, Cap: cp, Elem: et}
}

func (en *Engine) execSlice(st *State, f *Frame, x *ssa.Slice) Value {
	var lo, hi, mx *Term
	if x.Low != nil {
		lo = en.term(st, f, x.Low)
	} else {
		lo = ConstI(0)
	}
	if x.High != nil {
		hi = en.term(st, f, x.High)
	}
	if x.Max != nil {
		mx = en.term(st, f, x.Max)
	}
	pos := posOf(en, x.Pos())
	switch b := en.get(st, f, x.X).(type) {
	case PtrV: // pointer to array
		at := x.X.Type().Underlying().(*types.Pointer).Elem().Underlying().(*types.Array)
		n := ConstI(at.Len())
		if hi == nil {
			hi = n
		}
		if mx == nil {
			mx = n
		}
		en.require(st, "slice", And(Le(ConstI(0), lo), Le(lo, hi), Le(hi, mx), Le(mx, n)), "slice bounds of array in range", pos)
		if b.R == nil {
			en.require(st, "nil", False(), "slicing nil array pointer", pos)
			st.done, st.infeasible = true, true
			return SliceV{}
		}
		return SliceV{R: b.R, Path: b.Path, Off: lo, Len: Sub(hi, lo), Cap: Sub(mx, lo), Elem: at.Elem()}
	case SliceV:
		if hi == nil {
			hi = en.fix(st, b.Len)
		}
		if mx == nil {
			mx = b.Cap
		}
		en.require(st, "slice", And(Le(ConstI(0), lo), Le(lo, hi), Le(hi, mx), Le(mx, b.Cap)), "slice bounds in range (0 <= low <= high <= cap)", pos)
		if b.R == nil {
			return SliceV{Elem: b.Elem}
		}
		return SliceV{R: b.R, Path: b.Path, Off: Add(b.Off, lo), Len: Sub(hi, lo), Cap: Sub(mx, lo), Elem: b.Elem}
	case StringV:
		fail("string slicing unsupported")
	}
	fail("Slice on %T", en.get(st, f, x.X))
	return nil
}

func (en *Engine) execConvert(st *State, f *Frame, x *ssa.Convert) Value {
	v := en.get(st, f, x.X)
	from, to := x.X.Type(), x.Type()
	if _, _, ok := intInfo(to); ok {
		if t, ok := v.(*Term); ok {
			return en.convertInt(st, t, from, to)
		}
		if p, ok := v.(PtrV); ok { // uintptr(unsafe.Pointer): an arbitrary (public) address
			name := "addr$nil"
			if p.R != nil {
				name = "addr$" + sanitize(p.String())
			}
			a := Var(name, SInt)
			if !st.typed[a.id] {
				st.typed[a.id] = true
				st.assume(Le(ConstI(0), a))
				st.assume(Lt(a, Const(pow2(wordBits))))
			}
			return a
		}
	}
	switch tu := to.Underlying().(type) {
	case *types.Basic:
		if tu.Kind() == types.UnsafePointer {
			return v
		}
		if tu.Kind() == types.String {
			// []byte -> string or int -> string: opaque unless constant
			return OpaqueV{What: "string conversion"}
		}
	case *types.Slice:
		if s, ok := v.(StringV); ok {
			return en.stringToBytes(st, f, s)
		}
		if s, ok := v.(SliceV); ok {
			return s
		}
	case *types.Pointer:
		// unsafe.Pointer -> *T
		if p, ok := v.(PtrV); ok {
			return en.unsafeCast(st, p, tu.Elem())
		}
	}
	fail("unsupported conversion %s -> %s", from, to)
	return nil
}

func (en *Engine) stringIndex(st *State, s StringV, idx *Term, pos string) Value {
	if s.Const != nil {
		if k, ok := idx.ConstInt(); ok {
			return ConstI(int64((*s.Const)[k]))
		}
	}
	fail("symbolic string index unsupported")
	return nil
}

func (en *Engine) stringToBytes(st *State, f *Frame, s StringV) Value {
	et := types.Typ[types.Uint8]
	if s.Const != nil {
		n := int64(len(*s.Const))
		at := types.NewArray(et, n)
		r := en.newRegion("strbytes", at, "heap")
		es := make([]Cell, n)
		for i := range es {
			es[i] = ConstI(int64((*s.Const)[i]))
		}
		st.mem[r] = &ArrCell{es}
		return SliceV{R: r, Off: ConstI(0), Len: ConstI(n), Cap: ConstI(n), Elem: et}
	}
	// symbolic string: fresh copy with same contents
	r := en.newRegion("strbytes", types.NewSlice(et), "heap")
	st.mem[r] = &SymArrCell{Arr: s.Arr, N: s.Len, Elem: et}
	return SliceV{R: r, Off: ConstI(0), Len: s.Len, Cap: s.Len, Elem: et}
}

// unsafeCast models (*[n]uintK)(unsafe.Pointer(&b[0])) as a little-endian word view of the byte array b.
// (The only use in the module is a per-word mask-select, whose byte-level effect does not depend on byte order.)
func (en *Engine) unsafeCast(st *State, p PtrV, elem types.Type) Value {
	at, ok := elem.Underlying().(*types.Array)
	if !ok {
		fail("unsafe pointer cast to *%s unsupported", elem)
	}
	bits, signed, ok := intInfo(at.Elem())
	if !ok || signed || bits%8 != 0 {
		fail("unsafe pointer cast to *%s unsupported", elem)
	}
	if p.R == nil || len(p.Path) == 0 || p.Path[len(p.Path)-1].Idx == nil || !Eq(p.Path[len(p.Path)-1].Idx, ConstI(0)).IsTrue() {
		fail("unsafe pointer cast of a pointer that is not the address of element 0 of a byte array")
	}
	base := PtrV{R: p.R, Path: p.Path[:len(p.Path)-1]}
	c, t := en.loadPath(st, en.regionCell(st, base.R), base.Path, base.R.typ)
	ba, ok := t.Underlying().(*types.Array)
	if !ok || ba.Len() != at.Len()*int64(bits/8) {
		fail("unsafe pointer cast: size mismatch")
	}
	_ = c
	en.unsafeUses[en.curFunc+": byte array viewed as "+elem.String()] = true
	return PtrV{R: base.R, Path: base.Path, View: bits / 8, Words: int(at.Len())}
}

func (en *Engine) viewLoad(st *State, p PtrV) Value {
	var ts []*Term
	for i := 0; i < p.View; i++ {
		idx := Add(MulC(p.Word, bi(int64(p.View))), ConstI(int64(i)))
		b := en.load(st, PtrV{R: p.R, Path: appendPath(p.Path, PathEl{Idx: idx})}, types.Typ[types.Uint8]).(*Term)
		ts = append(ts, MulC(b, pow2(8*i)))
	}
	return Add(append(ts, ConstI(0))...)
}

func (en *Engine) viewStore(st *State, p PtrV, v *Term) {
	for i := 0; i < p.View; i++ {
		idx := Add(MulC(p.Word, bi(int64(p.View))), ConstI(int64(i)))
		en.store(st, PtrV{R: p.R, Path: appendPath(p.Path, PathEl{Idx: idx})}, en.mmod(st, en.mdiv(st, v, pow2(8*i)), pow2(8)))
	}
}

func (en *Engine) execTypeAssert(st *State, f *Frame, x *ssa.TypeAssert) []*State {
	v := en.get(st, f, x.X)
	iv, ok := v.(IfaceV)
	if !ok {
		fail("type assert on %T", v)
	}
	if iv.Sym != nil && iv.Dyn == nil {
		return en.symTypeAssert(st, f, x, iv)
	}
	match := iv.Dyn != nil && types.Identical(iv.Dyn, x.AssertedType)
	if _, isIface := x.AssertedType.Underlying().(*types.Interface); isIface && iv.Dyn != nil {
		match = types.Implements(iv.Dyn, x.AssertedType.Underlying().(*types.Interface))
		if match {
			if x.CommaOk {
				f.env[x] = TupleV{iv, True()}
			} else {
				f.env[x] = iv
			}
			return nil
		}
	}
	if x.CommaOk {
		if match {
			f.env[x] = TupleV{iv.V, True()}
		} else {
			f.env[x] = TupleV{zeroValue(x.AssertedType), False()}
		}
		return nil
	}
	if !match {
		en.flushSide(st)
		st.done, st.panicked = true, true
		st.panicMsg = "failed type assertion at " + posOf(en, x.Pos())
		return nil
	}
	f.env[x] = iv.V
	return nil
}

// noteRead/noteWrite are hooks for the frame/flow back end.
func (en *Engine) noteRead(st *State, p PtrV, pos string)  {}
// ---------- element invariants ----------

// elemInvLookup: is (r, path) inside an array carrying an element invariant of the function under
// verification? Returns the pointer to the element and the predicate.
func (en *Engine) elemInvLookup(st *State, r *Region, path []PathEl) (PtrV, *ElemInvSpec, bool) {
	if len(st.frames) == 0 {
		return PtrV{}, nil, false
	}
	f := st.frames[0]
	if f.spec == nil || f.spec.fc == nil || len(f.spec.fc.ElemInv) == 0 {
		return PtrV{}, nil, false
	}
	for i := range f.spec.fc.ElemInv {
		ei := &f.spec.fc.ElemInv[i]
		var loc Value
		func() {
			defer func() {
				if rec := recover(); rec != nil {
					if _, ok := rec.(execError); !ok {
						panic(rec)
					}
				}
			}()
			sc := *f.spec
			sc.st = st
			sc.locals = en.localsResolver(st, f)
			loc = sc.lvalue(ei.Arr.Expr)
		}()
		a, ok := loc.(PtrV)
		if !ok || a.R != r || len(path) <= len(a.Path) {
			continue
		}
		match := true
		for k, e := range a.Path {
			if e.Idx != nil || path[k].Idx != nil || e.Field != path[k].Field {
				match = false
			}
		}
		if !match || path[len(a.Path)].Idx == nil {
			continue
		}
		return PtrV{R: r, Path: path[:len(a.Path)+1]}, ei, true
	}
	return PtrV{}, nil, false
}

func (en *Engine) elemInvPred(st *State, elem PtrV, ei *ElemInvSpec) *Term {
	f := st.frames[0]
	sc := *f.spec
	sc.st = st
	sc.locals = en.localsResolver(st, f)
	n := sc.child()
	n.env["elem"] = elem
	return n.evalBool(ei.Pred.Expr)
}

// elemInvAssume: an element of an invariant-carrying array is addressed: its invariant holds.
func (en *Engine) elemInvAssume(st *State, p PtrV) {
	if st.quantDepth > 0 || p.R == nil {
		return
	}
	elem, ei, ok := en.elemInvLookup(st, p.R, p.Path)
	if !ok {
		return
	}
	st.assume(en.elemInvPred(st, elem, ei))
}

// elemInvCheck: after a write into an element of an invariant-carrying array the invariant holds again.
func (en *Engine) elemInvCheck(st *State, r *Region, path []PathEl, pos string) {
	if r == nil || st.done {
		return
	}
	elem, ei, ok := en.elemInvLookup(st, r, path)
	if !ok {
		return
	}
	en.addObl(st, "elem-inv", en.elemInvPred(st, elem, ei), "element invariant "+ei.Pred.Src+" of "+ei.Arr.Src+" holds after the write", pos)
}

// writeFrame: the locations a function may write according to its `modifies` clause, resolved
// at entry. Every program-level write (store instruction, copy, library model, callee's
// modifies clause) to memory that existed at entry must fall inside it: obligation `wframe`.
// This is stronger than comparing entry and exit memory (the `frame` obligations): a write that
// is undone before returning is still a write another goroutine can observe.
type writeFrame struct {
	entry   map[*Region]bool
	allowed []Value
}

func (en *Engine) noteWrite(st *State, p PtrV, pos string) {
	en.checkWrite(st, p.R, p.Path, nil, nil, pos)
}

func pathPrefixEq(pre, full []PathEl) (*Term, bool) {
	if len(pre) > len(full) {
		return nil, false
	}
	cond := True()
	for i, e := range pre {
		f := full[i]
		if (e.Idx == nil) != (f.Idx == nil) {
			return nil, false
		}
		if e.Idx == nil {
			if e.Field != f.Field {
				return nil, false
			}
			continue
		}
		cond = And(cond, Eq(e.Idx, f.Idx))
	}
	return cond, true
}

// checkWrite: a write to r at path (optionally the index range [off, off+n) below path).
func (en *Engine) checkWrite(st *State, r *Region, path []PathEl, off, n *Term, pos string) {
	wf := st.wframe
	if wf == nil || r == nil {
		return
	}
	if !wf.entry[r] {
		_, fromInit := en.initMem[r]
		if r.kind == "param-elem" {
			fromInit = true // elements of a caller-supplied slice of slices
		}
		if !fromInit && (r.kind != "global" || r.global == nil || r.global.Pkg == nil || !modulePkg(r.global.Pkg.Pkg.Path())) {
			return // memory allocated by this call
		}
	}
	goal := False()
	for _, a := range wf.allowed {
		switch l := a.(type) {
		case PtrV:
			if l.R != r {
				continue
			}
			if c, ok := pathPrefixEq(l.Path, path); ok {
				goal = Or(goal, c)
			}
		case SliceV:
			if l.R != r {
				continue
			}
			c, ok := pathPrefixEq(l.Path, path)
			if !ok {
				continue
			}
			hi := Add(l.Off, l.Len)
			if len(path) > len(l.Path) {
				e := path[len(l.Path)]
				if e.Idx == nil {
					continue
				}
				goal = Or(goal, And(c, Le(l.Off, e.Idx), Lt(e.Idx, hi)))
			} else if off != nil {
				goal = Or(goal, And(c, Or(Le(n, ConstI(0)), And(Le(l.Off, off), Le(Add(off, n), hi)))))
			} else {
				// the whole array is written: allowed only if the range is the whole array; not expressible here
				continue
			}
		}
	}
	if goal == True() {
		en.flowOK++
		return
	}
	en.addObl(st, "wframe", goal, fmt.Sprintf("write to %s (memory that existed before the call) is inside the modifies clause", r.name), pos)
}

// callOrdinal numbers the call instructions of fn in block/instruction order (1-based).
func (en *Engine) callOrdinal(fn *ssa.Function, c *ssa.Call) int {
	m, ok := en.callOrdCache[fn]
	if !ok {
		m = map[ssa.Instruction]int{}
		n := 0
		for _, b := range fn.Blocks {
			for _, ins := range b.Instrs {
				if _, ok := ins.(*ssa.Call); ok {
					n++
					m[ins] = n
				}
			}
		}
		en.callOrdCache[fn] = m
	}
	return m[c]
}

// applyCut proves the cut assertion at this point, forgets the listed locals and continues with the assertion only.
func (en *Engine) applyCut(st *State, f *Frame, cs *CutSpec) {
	en.usedCuts[fmt.Sprintf("%s#call%d%s", en.curFunc, cs.Call, cs.Anchor)] = true
	en.flushSide(st)
	sc := *f.spec
	sc.st = st
	sc.locals = en.localsResolver(st, f)
	g := sc.evalBool(cs.Assert.Expr)
	if cs.Split {
		// case analysis: this path continues under g, a copy of it under !g
		if g.IsTrue() || g.IsFalse() {
			return
		}
		if en.intervalHolds(st, g) {
			st.addSide(g, "split condition decided by range")
			return
		}
		if ng := Not(g); en.intervalHolds(st, ng) {
			st.addSide(ng, "split condition decided by range")
			return
		}
		other := st.clone()
		st.assume(g)
		st.trace = append(st.trace, "split: "+cs.Assert.Src)
		other.assume(Not(g))
		other.trace = append(other.trace, "split: !("+cs.Assert.Src+")")
		en.pendingForks = append(en.pendingForks, other)
		en.paths++
		return
	}
	label := fmt.Sprintf("call%d", cs.Call)
	if cs.Anchor != "" {
		label = strings.ReplaceAll(cs.Anchor, " ", "_")
	}
	o := en.addObl(st, "cut@"+label, g, fmt.Sprintf("cut (%s): %s", label, cs.Assert.Src), cs.Assert.Line)
	o.Alg = true
	// continue with the entry assumptions and the cut assertions only
	if !cs.Keep {
		st.facts = append([]*Term(nil), st.persist...)
	}
	for _, h := range cs.Havoc {
		id, ok := h.Expr.(*ast.Ident)
		if !ok {
			en.havocLvalue(st, &sc, h)
			continue
		}
		v, ok := sc.locals(id.Name)
		if !ok {
			fail("cut havoc: no local named %s", id.Name)
		}
		p, ok := v.(PtrV)
		if !ok {
			fail("cut havoc: %s is not an addressable local", id.Name)
		}
		if p.R.kind == "param" {
			en.havocLvalue(st, &sc, SpecExpr{Src: "*" + id.Name, Expr: &ast.StarExpr{X: id}})
			continue
		}
		var facts []*Term
		st.mem[p.R] = freshCell(p.R.typ, p.R.name+".c", &facts)
		for _, fc := range facts {
			st.assume(fc)
		}
	}
	sc2 := *f.spec
	sc2.st = st
	sc2.locals = en.localsResolver(st, f)
	before := len(st.facts)
	st.caseConcl = nil
	st.assume(sc2.evalBool(cs.Assert.Expr))
	for _, c := range st.caseConcl {
		st.assume(c) // follows from the proved cases
	}
	st.caseConcl = nil
	if cs.Assume != nil {
		st.assume(sc2.evalBool(cs.Assume.Expr))
		en.assumedUsed[en.curFunc+" (bridge assumed at cut: "+cs.Assume.Src+")"] = true
	}
	// havoc typing facts and the assertion persist across later cuts
	if cs.Keep {
		st.persist = append(st.persist, st.facts[before:]...)
	} else {
		st.persist = append(st.persist, st.facts[len(st.persist):before]...)
		st.persist = append(st.persist, st.facts[before:]...)
	}
}

// namedCuts applies cuts anchored at "before call NAME#K", "after call NAME#K" or "after store LOCAL".
func (en *Engine) namedCuts(st *State, f *Frame) {
	anchors := en.cutAnchors(f.fn, f.spec.fc)
	if f.pc < len(f.block.Instrs) {
		if cs, ok := anchors.before[f.block.Instrs[f.pc]]; ok {
			for _, c := range cs {
				key := 1000 + c.idx
				if !st.cutDone[key] {
					st.cutDone[key] = true
					en.applyCut(st, f, c.cs)
				}
			}
		}
	}
	if f.pc > 0 {
		if cs, ok := anchors.after[f.block.Instrs[f.pc-1]]; ok {
			for _, c := range cs {
				key := 1000 + c.idx
				if !st.cutDone[key] {
					st.cutDone[key] = true
					en.applyCut(st, f, c.cs)
				}
			}
		}
	}
}

type anchoredCut struct {
	idx int
	cs  *CutSpec
}

type cutAnchorSet struct {
	before, after map[ssa.Instruction][]anchoredCut
}

func (en *Engine) cutAnchors(fn *ssa.Function, fc *FuncContract) *cutAnchorSet {
	if a, ok := en.anchorCache[fn]; ok {
		return a
	}
	a := &cutAnchorSet{before: map[ssa.Instruction][]anchoredCut{}, after: map[ssa.Instruction][]anchoredCut{}}
	for i, cs := range fc.NamedCuts {
		parts := strings.Fields(cs.Anchor) // before|after call|store NAME[#K]   or   at loop#N
		if parts[0] == "at" {
			continue // handled at loop heads
		}
		name, k := parts[2], 1
		if j := strings.Index(name, "#"); j >= 0 {
			fmt.Sscanf(name[j+1:], "%d", &k)
			name = name[:j]
		}
		var target ssa.Instruction
		switch parts[1] {
		case "call":
			n := 0
			for _, b := range fn.Blocks {
				for _, ins := range b.Instrs {
					c, ok := ins.(*ssa.Call)
					if !ok {
						continue
					}
					cn := ""
					if sf := c.Call.StaticCallee(); sf != nil {
						cn = sf.Name()
					}
					if cn == name {
						n++
						if n == k && target == nil {
							target = ins
						}
					}
				}
			}
		case "store":
			// last store (in block order) into the local named `name`
			for _, b := range fn.Blocks {
				for _, ins := range b.Instrs {
					s, ok := ins.(*ssa.Store)
					if !ok {
						continue
					}
					if baseAllocName(s.Addr) == name {
						target = ins
					}
				}
			}
		}
		if target == nil {
			// the code no longer has this anchor: the lemma is dropped and the obligations that
			// needed it have to stand on their own
			en.missingAnchors[fmt.Sprintf("%s: %s", fn.Name(), cs.Anchor)] = true
			continue
		}
		ac := anchoredCut{idx: i, cs: cs}
		if parts[0] == "before" {
			a.before[target] = append(a.before[target], ac)
		} else {
			a.after[target] = append(a.after[target], ac)
		}
	}
	en.anchorCache[fn] = a
	return a
}

func baseAllocName(v ssa.Value) string {
	for {
		switch x := v.(type) {
		case *ssa.IndexAddr:
			v = x.X
		case *ssa.FieldAddr:
			v = x.X
		case *ssa.Alloc:
			return x.Comment
		default:
			return ""
		}
	}
}

// fix replaces a term whose value is determined by the path condition (interval of width 0) by that constant.
func (en *Engine) fix(st *State, t *Term) *Term {
	if t.op == OConst {
		return t
	}
	if iv := st.bounds.Interval(t); iv.lo != nil && iv.hi != nil && iv.lo.Cmp(iv.hi) == 0 {
		st.addSide(Eq(t, Const(iv.lo)), "value fixed by the path condition")
		return Const(iv.lo)
	}
	return t
}
