package main

// Term DAG over mathematical integers, booleans, integer arrays and
// uninterpreted functions. Machine arithmetic is lowered onto it by the
// executor (exec.go): every n-bit operation is the mathematical operation
// followed by an explicit wrap (Mod by 2^n), which is dropped only together
// with a recorded side condition that is later discharged by a solver.

import (
	"fmt"
	"math/big"
	"sort"
	"strings"
	"sync"
)

type Sort string

const (
	SInt  Sort = "Int"
	SBool Sort = "Bool"
	SArr  Sort = "(Array Int Int)"
)

type Op int

const (
	OConst Op = iota // integer constant k
	OVar             // free variable name
	OAdd             // n-ary sum
	OMul             // n-ary product (constants folded into k as coefficient)
	ODiv             // floor division by positive constant k
	OMod             // floor modulus by positive constant k
	OIte
	OEq
	OLe
	OLt
	OAnd
	OOr
	ONot
	OImp
	OTrue
	OFalse
	OSelect
	OStore
	OUF     // uninterpreted function application name(args)
	OForall // bound variable args[0] (OVar), body args[1]
	ODivT   // floor division by a non-constant term (rare)
	OModT
	OPow // args[0]^k, k >= 0 constant (possibly huge)
)

type Term struct {
	id   int
	op   Op
	args []*Term
	k    *big.Int
	name string
	sort Sort
}

type TermStore struct {
	tab   map[string]*Term
	next  int
	ufs   map[string]UFDecl // declared uninterpreted functions
	sorts map[string]bool   // declared uninterpreted sorts
	fresh int
	mu    sync.Mutex
}

type UFDecl struct {
	Name string
	Args []Sort
	Res  Sort
}

func NewTermStore() *TermStore {
	return &TermStore{tab: map[string]*Term{}, ufs: map[string]UFDecl{}, sorts: map[string]bool{}}
}

var TS = NewTermStore()

func (s *TermStore) intern(op Op, sort Sort, k *big.Int, name string, args ...*Term) *Term {
	var sb strings.Builder
	fmt.Fprintf(&sb, "%d|%s|", op, sort)
	if k != nil {
		sb.WriteString(k.String())
	}
	sb.WriteByte('|')
	sb.WriteString(name)
	for _, a := range args {
		fmt.Fprintf(&sb, "|%d", a.id)
	}
	key := sb.String()
	s.mu.Lock()
	defer s.mu.Unlock()
	if t, ok := s.tab[key]; ok {
		return t
	}
	t := &Term{id: s.next, op: op, args: args, k: k, name: name, sort: sort}
	s.next++
	s.tab[key] = t
	return t
}

func bi(n int64) *big.Int { return big.NewInt(n) }

func pow2(n int) *big.Int { return new(big.Int).Lsh(big.NewInt(1), uint(n)) }

func Const(k *big.Int) *Term      { return TS.intern(OConst, SInt, new(big.Int).Set(k), "") }
func ConstI(n int64) *Term        { return Const(bi(n)) }
func Var(name string, s Sort) *Term { return TS.intern(OVar, s, nil, name) }
func True() *Term                 { return TS.intern(OTrue, SBool, nil, "") }
func False() *Term                { return TS.intern(OFalse, SBool, nil, "") }
func BoolT(b bool) *Term {
	if b {
		return True()
	}
	return False()
}

func FreshVar(prefix string, s Sort) *Term {
	TS.mu.Lock()
	TS.fresh++
	n := TS.fresh
	TS.mu.Unlock()
	return Var(fmt.Sprintf("%s!%d", sanitize(prefix), n), s)
}

func sanitize(s string) string {
	var sb strings.Builder
	for _, r := range s {
		if r >= 'a' && r <= 'z' || r >= 'A' && r <= 'Z' || r >= '0' && r <= '9' || r == '_' || r == '.' || r == '!' || r == '$' {
			sb.WriteRune(r)
		} else {
			sb.WriteByte('_')
		}
	}
	return sb.String()
}

func (t *Term) IsConst() bool { return t.op == OConst }
func (t *Term) IsTrue() bool  { return t.op == OTrue }
func (t *Term) IsFalse() bool { return t.op == OFalse }

func (t *Term) ConstInt() (int64, bool) {
	if t.op == OConst && t.k.IsInt64() {
		return t.k.Int64(), true
	}
	return 0, false
}

// ---------- arithmetic constructors ----------

// linear view: term = c0 + sum coef_i * atom_i (atoms are non-Add, non-const, coefficient-free terms)
type linTerm struct {
	c     *big.Int
	coefs map[int]*big.Int
	atoms map[int]*Term
}

func newLin() *linTerm {
	return &linTerm{c: new(big.Int), coefs: map[int]*big.Int{}, atoms: map[int]*Term{}}
}

func (l *linTerm) addAtom(a *Term, c *big.Int) {
	if c.Sign() == 0 {
		return
	}
	if old, ok := l.coefs[a.id]; ok {
		n := new(big.Int).Add(old, c)
		if n.Sign() == 0 {
			delete(l.coefs, a.id)
			delete(l.atoms, a.id)
		} else {
			l.coefs[a.id] = n
		}
		return
	}
	l.coefs[a.id] = new(big.Int).Set(c)
	l.atoms[a.id] = a
}

func (l *linTerm) addTerm(t *Term, c *big.Int) {
	switch t.op {
	case OConst:
		l.c.Add(l.c, new(big.Int).Mul(t.k, c))
	case OAdd:
		for _, a := range t.args {
			l.addTerm(a, c)
		}
	case OMul:
		// coefficient k times product of args
		if len(t.args) == 1 {
			l.addTerm(t.args[0], new(big.Int).Mul(c, t.k))
		} else {
			core := mkMulCore(big.NewInt(1), t.args)
			l.addAtom(core, new(big.Int).Mul(c, t.k))
		}
	default:
		l.addAtom(t, c)
	}
}

func (l *linTerm) build() *Term {
	ids := make([]int, 0, len(l.coefs))
	for id := range l.coefs {
		ids = append(ids, id)
	}
	sort.Ints(ids)
	var args []*Term
	for _, id := range ids {
		args = append(args, mkScaled(l.atoms[id], l.coefs[id]))
	}
	if l.c.Sign() != 0 || len(args) == 0 {
		args = append(args, Const(l.c))
	}
	if len(args) == 1 {
		return args[0]
	}
	return TS.intern(OAdd, SInt, nil, "", args...)
}

func mkScaled(a *Term, c *big.Int) *Term {
	if c.Cmp(bi(1)) == 0 {
		return a
	}
	if a.op == OMul {
		return mkMulCore(new(big.Int).Mul(c, a.k), a.args)
	}
	return mkMulCore(c, []*Term{a})
}

func mkMulCore(k *big.Int, args []*Term) *Term {
	if k.Sign() == 0 {
		return ConstI(0)
	}
	if len(args) == 0 {
		return Const(k)
	}
	if len(args) == 1 && k.Cmp(bi(1)) == 0 {
		return args[0]
	}
	as := append([]*Term(nil), args...)
	sort.Slice(as, func(i, j int) bool { return as[i].id < as[j].id })
	return TS.intern(OMul, SInt, new(big.Int).Set(k), "", as...)
}

func Add(ts ...*Term) *Term {
	l := newLin()
	for _, t := range ts {
		l.addTerm(t, bi(1))
	}
	return l.build()
}

func Sub(a, b *Term) *Term {
	l := newLin()
	l.addTerm(a, bi(1))
	l.addTerm(b, bi(-1))
	return l.build()
}

func Neg(a *Term) *Term { return Sub(ConstI(0), a) }

func Mul(ts ...*Term) *Term {
	k := big.NewInt(1)
	var args []*Term
	for _, t := range ts {
		switch t.op {
		case OConst:
			k.Mul(k, t.k)
		case OMul:
			k.Mul(k, t.k)
			args = append(args, t.args...)
		default:
			args = append(args, t)
		}
	}
	if k.Sign() == 0 {
		return ConstI(0)
	}
	// distribute constant over a sum when there is a single Add factor (keeps linear things linear)
	if len(args) == 1 && args[0].op == OAdd {
		l := newLin()
		l.addTerm(args[0], k)
		return l.build()
	}
	return mkMulCore(k, args)
}

func MulC(a *Term, k *big.Int) *Term { return Mul(a, Const(k)) }

func floorDiv(a, b *big.Int) *big.Int {
	q, m := new(big.Int).DivMod(a, b, new(big.Int)) // Euclidean: m >= 0
	_ = m
	if b.Sign() < 0 {
		// not used (b always positive)
		panic("floorDiv negative divisor")
	}
	return q
}

func floorMod(a, b *big.Int) *big.Int {
	return new(big.Int).Mod(a, b) // Euclidean, b>0 => in [0,b)
}

func Div(a *Term, k *big.Int) *Term {
	if k.Sign() <= 0 {
		panic("Div by non-positive constant")
	}
	if k.Cmp(bi(1)) == 0 {
		return a
	}
	if a.op == OConst {
		return Const(floorDiv(a.k, k))
	}
	// div(div(x,a),b) = div(x, a*b)
	if a.op == ODiv {
		return Div(a.args[0], new(big.Int).Mul(a.k, k))
	}
	// exact division of a linear form all of whose coefficients are divisible by k
	if l := linOf(a); len(l.coefs) > 0 {
		all := new(big.Int).Mod(l.c, k).Sign() == 0
		for _, c := range l.coefs {
			if new(big.Int).Mod(c, k).Sign() != 0 {
				all = false
				break
			}
		}
		if all {
			n := newLin()
			for id, c := range l.coefs {
				n.addAtom(l.atoms[id], new(big.Int).Div(c, k))
			}
			n.c = new(big.Int).Div(l.c, k)
			return n.build()
		}
	}
	return TS.intern(ODiv, SInt, new(big.Int).Set(k), "", a)
}

// splitLin writes l = k*out + rest with every coefficient (and the constant)
// of rest of absolute value below k (truncated division, so small negative
// coefficients stay as they are). Div and Mod use the same split so that the
// quotient atoms they produce coincide.
func splitLin(l *linTerm, k *big.Int) (out, rest *linTerm, pulled bool) {
	out, rest = newLin(), newLin()
	for id, c := range l.coefs {
		q, r := new(big.Int).QuoRem(c, k, new(big.Int))
		if q.Sign() != 0 {
			pulled = true
			out.addAtom(l.atoms[id], q)
		}
		rest.addAtom(l.atoms[id], r)
	}
	q, r := new(big.Int).QuoRem(l.c, k, new(big.Int))
	if q.Sign() != 0 {
		pulled = true
		out.c = q
	}
	rest.c = r
	return
}

func linOf(a *Term) *linTerm {
	l := newLin()
	l.addTerm(a, bi(1))
	return l
}

func Mod(a *Term, k *big.Int) *Term {
	if k.Sign() <= 0 {
		panic("Mod by non-positive constant")
	}
	if k.Cmp(bi(1)) == 0 {
		return ConstI(0)
	}
	if a.op == OConst {
		return Const(floorMod(a.k, k))
	}
	if a.op == OMod && new(big.Int).Mod(a.k, k).Sign() == 0 {
		// mod(mod(x, a), k) with k | a  = mod(x,k)
		return Mod(a.args[0], k)
	}
	if a.op == OMod && new(big.Int).Mod(k, a.k).Sign() == 0 {
		return a // already < a.k <= k
	}
	return TS.intern(OMod, SInt, new(big.Int).Set(k), "", a)
}

func Pow(a *Term, k *big.Int) *Term {
	if k.Sign() < 0 {
		panic("Pow: negative exponent")
	}
	if k.Sign() == 0 {
		return ConstI(1)
	}
	if k.Cmp(bi(1)) == 0 {
		return a
	}
	if a.op == OConst && (a.k.CmpAbs(bi(1)) <= 0 || k.BitLen() <= 12) {
		if a.k.CmpAbs(bi(1)) <= 0 {
			if a.k.Sign() >= 0 || k.Bit(0) == 0 {
				return Const(new(big.Int).Abs(a.k))
			}
			return a
		}
		return Const(new(big.Int).Exp(a.k, k, nil))
	}
	if a.op == OPow {
		return Pow(a.args[0], new(big.Int).Mul(a.k, k))
	}
	return TS.intern(OPow, SInt, new(big.Int).Set(k), "", a)
}

func DivT(a, b *Term) *Term {
	if b.op == OConst && b.k.Sign() > 0 {
		return Div(a, b.k)
	}
	return TS.intern(ODivT, SInt, nil, "", a, b)
}

func ModT(a, b *Term) *Term {
	if b.op == OConst && b.k.Sign() > 0 {
		return Mod(a, b.k)
	}
	return TS.intern(OModT, SInt, nil, "", a, b)
}

// ---------- boolean constructors ----------

func Not(a *Term) *Term {
	switch a.op {
	case OTrue:
		return False()
	case OFalse:
		return True()
	case ONot:
		return a.args[0]
	case OLe:
		return Lt(a.args[1], a.args[0])
	case OLt:
		return Le(a.args[1], a.args[0])
	}
	return TS.intern(ONot, SBool, nil, "", a)
}

func And(ts ...*Term) *Term {
	var args []*Term
	seen := map[int]bool{}
	for _, t := range ts {
		switch t.op {
		case OTrue:
		case OFalse:
			return False()
		case OAnd:
			for _, a := range t.args {
				if !seen[a.id] {
					seen[a.id] = true
					args = append(args, a)
				}
			}
		default:
			if !seen[t.id] {
				seen[t.id] = true
				args = append(args, t)
			}
		}
	}
	if len(args) == 0 {
		return True()
	}
	if len(args) == 1 {
		return args[0]
	}
	return TS.intern(OAnd, SBool, nil, "", args...)
}

func Or(ts ...*Term) *Term {
	var args []*Term
	seen := map[int]bool{}
	for _, t := range ts {
		switch t.op {
		case OFalse:
		case OTrue:
			return True()
		case OOr:
			for _, a := range t.args {
				if !seen[a.id] {
					seen[a.id] = true
					args = append(args, a)
				}
			}
		default:
			if !seen[t.id] {
				seen[t.id] = true
				args = append(args, t)
			}
		}
	}
	if len(args) == 0 {
		return False()
	}
	if len(args) == 1 {
		return args[0]
	}
	return TS.intern(OOr, SBool, nil, "", args...)
}

func Imp(a, b *Term) *Term {
	if a.IsTrue() {
		return b
	}
	if a.IsFalse() || b.IsTrue() {
		return True()
	}
	if b.IsFalse() {
		return Not(a)
	}
	return TS.intern(OImp, SBool, nil, "", a, b)
}

func Iff(a, b *Term) *Term { return Eq(a, b) }

func Eq(a, b *Term) *Term {
	if a == b {
		return True()
	}
	if a.sort != b.sort {
		panic(fmt.Sprintf("Eq: sort mismatch %s vs %s (%s == %s)", a.sort, b.sort, a, b))
	}
	if a.sort == SInt {
		d := Sub(a, b)
		if d.op == OConst {
			return BoolT(d.k.Sign() == 0)
		}
	}
	if a.sort == SBool {
		if a.IsTrue() {
			return b
		}
		if b.IsTrue() {
			return a
		}
		if a.IsFalse() {
			return Not(b)
		}
		if b.IsFalse() {
			return Not(a)
		}
	}
	// ite(c, k1, k2) == k  with constants
	if a.sort == SInt {
		for _, pr := range [][2]*Term{{a, b}, {b, a}} {
			x, k := pr[0], pr[1]
			if x.op == OIte && k.op == OConst && x.args[1].op == OConst && x.args[2].op == OConst {
				t1 := x.args[1].k.Cmp(k.k) == 0
				t2 := x.args[2].k.Cmp(k.k) == 0
				switch {
				case t1 && t2:
					return True()
				case t1:
					return x.args[0]
				case t2:
					return Not(x.args[0])
				default:
					return False()
				}
			}
		}
	}
	if a.id > b.id {
		a, b = b, a
	}
	return TS.intern(OEq, SBool, nil, "", a, b)
}

func Ne(a, b *Term) *Term { return Not(Eq(a, b)) }

func Le(a, b *Term) *Term {
	d := Sub(a, b)
	if d.op == OConst {
		return BoolT(d.k.Sign() <= 0)
	}
	return TS.intern(OLe, SBool, nil, "", a, b)
}

func Lt(a, b *Term) *Term {
	d := Sub(a, b)
	if d.op == OConst {
		return BoolT(d.k.Sign() < 0)
	}
	return TS.intern(OLt, SBool, nil, "", a, b)
}

func Ge(a, b *Term) *Term { return Le(b, a) }
func Gt(a, b *Term) *Term { return Lt(b, a) }

func Ite(c, a, b *Term) *Term {
	if c.IsTrue() {
		return a
	}
	if c.IsFalse() {
		return b
	}
	if a == b {
		return a
	}
	if a.sort == SBool {
		return And(Imp(c, a), Imp(Not(c), b))
	}
	return TS.intern(OIte, a.sort, nil, "", c, a, b)
}

func Select(arr, idx *Term) *Term {
	// resolve through stores with syntactically decidable indices
	for arr.op == OStore {
		e := Eq(arr.args[1], idx)
		if e.IsTrue() {
			return arr.args[2]
		}
		if e.IsFalse() {
			arr = arr.args[0]
			continue
		}
		break
	}
	if arr.op == OVar && strings.HasPrefix(arr.name, "zeroarr!") {
		return ConstI(0) // a zero-initialised flattened array
	}
	return TS.intern(OSelect, SInt, nil, "", arr, idx)
}

func Store(arr, idx, v *Term) *Term {
	return TS.intern(OStore, SArr, nil, "", arr, idx, v)
}

func UF(name string, res Sort, args ...*Term) *Term {
	TS.mu.Lock()
	if _, ok := TS.ufs[name]; !ok {
		d := UFDecl{Name: name, Res: res}
		for _, a := range args {
			d.Args = append(d.Args, a.sort)
		}
		TS.ufs[name] = d
	}
	TS.mu.Unlock()
	return TS.intern(OUF, res, nil, name, args...)
}

func Forall(v *Term, body *Term) *Term {
	if body.IsTrue() {
		return True()
	}
	return TS.intern(OForall, SBool, nil, "", v, body)
}

// ---------- printing ----------

func (t *Term) String() string {
	return t.str(0)
}

func (t *Term) str(depth int) string {
	if depth > 6 {
		return "..."
	}
	switch t.op {
	case OConst:
		if t.k.BitLen() > 40 {
			return "0x" + t.k.Text(16)
		}
		return t.k.String()
	case OVar:
		return t.name
	case OTrue:
		return "true"
	case OFalse:
		return "false"
	}
	names := map[Op]string{OAdd: "+", OMul: "*", ODiv: "div", OMod: "mod", OIte: "ite", OEq: "=", OLe: "<=", OLt: "<", OAnd: "and", OOr: "or", ONot: "not", OImp: "=>", OSelect: "select", OStore: "store", OForall: "forall", ODivT: "div", OModT: "mod", OPow: "pow"}
	var sb strings.Builder
	sb.WriteByte('(')
	if t.op == OUF {
		sb.WriteString(t.name)
	} else {
		sb.WriteString(names[t.op])
	}
	if t.op == OMul && t.k.Cmp(bi(1)) != 0 {
		sb.WriteByte(' ')
		sb.WriteString(Const(t.k).str(depth + 1))
	}
	for _, a := range t.args {
		sb.WriteByte(' ')
		sb.WriteString(a.str(depth + 1))
	}
	if t.op == ODiv || t.op == OMod || t.op == OPow {
		sb.WriteByte(' ')
		sb.WriteString(Const(t.k).str(depth + 1))
	}
	sb.WriteByte(')')
	return sb.String()
}

// ---------- traversal helpers ----------

func walk(t *Term, seen map[int]bool, f func(*Term)) {
	if seen[t.id] {
		return
	}
	seen[t.id] = true
	for _, a := range t.args {
		walk(a, seen, f)
	}
	f(t)
}

// substitute replaces variables (by id) in t.
func substitute(t *Term, sub map[int]*Term, memo map[int]*Term) *Term {
	if r, ok := sub[t.id]; ok {
		return r
	}
	if len(t.args) == 0 {
		return t
	}
	if r, ok := memo[t.id]; ok {
		return r
	}
	args := make([]*Term, len(t.args))
	changed := false
	for i, a := range t.args {
		args[i] = substitute(a, sub, memo)
		if args[i] != a {
			changed = true
		}
	}
	var r *Term
	if !changed {
		r = t
	} else {
		r = rebuild(t, args)
	}
	memo[t.id] = r
	return r
}

func rebuild(t *Term, args []*Term) *Term {
	switch t.op {
	case OAdd:
		return Add(args...)
	case OMul:
		return Mul(append([]*Term{Const(t.k)}, args...)...)
	case ODiv:
		return Div(args[0], t.k)
	case OMod:
		return Mod(args[0], t.k)
	case ODivT:
		return DivT(args[0], args[1])
	case OModT:
		return ModT(args[0], args[1])
	case OPow:
		return Pow(args[0], t.k)
	case OIte:
		return Ite(args[0], args[1], args[2])
	case OEq:
		return Eq(args[0], args[1])
	case OLe:
		return Le(args[0], args[1])
	case OLt:
		return Lt(args[0], args[1])
	case OAnd:
		return And(args...)
	case OOr:
		return Or(args...)
	case ONot:
		return Not(args[0])
	case OImp:
		return Imp(args[0], args[1])
	case OSelect:
		return Select(args[0], args[1])
	case OStore:
		return Store(args[0], args[1], args[2])
	case OUF:
		return UF(t.name, t.sort, args...)
	case OForall:
		return Forall(args[0], args[1])
	}
	panic("rebuild: bad op")
}
