package main

import (
	"encoding/json"
	"flag"
	"fmt"
	"os"
	"path/filepath"
	"sort"
	"strconv"
	"strings"
	"time"
)

type KnownFinding struct {
	Property   string `json:"property"`
	Status     string `json:"status"` // "open" or "fixed"
	Obligation string `json:"obligation"` // obligation name pattern (prefix match on the name without ordinal suffix)
	What       string `json:"what"`
	Commit     string `json:"commit,omitempty"`
	Input      string `json:"input,omitempty"`
}

func loadKnownFindings(path string) []KnownFinding {
	var kf struct {
		Findings []KnownFinding `json:"findings"`
	}
	data, err := os.ReadFile(path)
	if err != nil {
		return nil
	}
	if err := json.Unmarshal(data, &kf); err != nil {
		fmt.Fprintln(os.Stderr, "known_findings.json:", err)
		return nil
	}
	return kf.Findings
}

type instanceInfo struct {
	Func   string
	Config string
	Alias  string
	Paths  int
	Obls   int
}

type instRef struct {
	en  *Engine
	res *FuncResult
}

type checkRun struct {
	insts     map[string]instRef
	prop      *PropSpec
	tier      string
	seed      int64
	timeout   time.Duration
	results   []OblResult
	instances []instanceInfo
	undecided []string // attachment / subset problems (no VIOLATION)
	assumed   map[string]bool
	inlined   map[string]bool
	funcs     map[string]bool
	axioms    map[string]bool
	externs   map[string]bool
	cuts      int
	loops     int
	flowOK    int
	covers    int
	coverBad  []string
	configs   []string
}

func cmdCheck(args []string) {
	fs := flag.NewFlagSet("check", flag.ExitOnError)
	repo := fs.String("repo", "/repo", "repository")
	verif := fs.String("verif", "/verif", "verification directory")
	tier := fs.String("tier", "", "quick|thorough")
	timeout := fs.Duration("timeout", 0, "per-obligation timeout")
	replay := fs.String("replay", "", "re-run a replay file")
	// allow "check C18 --tier quick"
	var id string
	var rest []string
	for _, a := range args {
		if !strings.HasPrefix(a, "-") && id == "" && strings.HasPrefix(a, "C") {
			id = a
		} else {
			rest = append(rest, a)
		}
	}
	fs.Parse(rest)
	if *replay != "" {
		os.Exit(runReplayFile(*replay, *repo))
	}
	if *tier == "" {
		*tier = os.Getenv("VERIF_TIER")
	}
	if *tier == "" {
		*tier = "quick"
	}
	seed := int64(1)
	if s := os.Getenv("VERIF_SEED"); s != "" {
		if v, err := strconv.ParseInt(s, 10, 64); err == nil {
			seed = v
		}
	}
	p, ok := props[id]
	if !ok {
		fmt.Fprintf(os.Stderr, "unknown property %q\n", id)
		os.Exit(2)
	}
	if *timeout == 0 {
		*timeout = 60 * time.Second
		if *tier == "thorough" {
			*timeout = 120 * time.Second
		}
	}
	if *tier != "thorough" {
		memoOpen(*verif) // the thorough tier re-discharges every obligation from scratch
	}
	t0 := time.Now()
	run := &checkRun{prop: p, tier: *tier, seed: seed, timeout: *timeout, assumed: map[string]bool{}, inlined: map[string]bool{}, funcs: map[string]bool{}, insts: map[string]instRef{}, axioms: map[string]bool{}, externs: map[string]bool{}}
	cfgs := p.Quick
	if *tier == "thorough" {
		cfgs = p.Thorough
	}
	run.configs = cfgs
	extraLoadTags = p.Tags
	var all []*Obligation
	for _, cn := range cfgs {
		cfg := allConfigs[cn]
		en, err := loadEngine(*repo, cfg, filepath.Join(*verif, "contracts"))
		if err != nil {
			fmt.Printf("UNDECIDED property=%s: cannot load /repo under configuration %s: %v\n", id, cn, err)
			writeEvidence(run, *verif, time.Since(t0), 0, []string{"load failure: " + err.Error()})
			os.Exit(2)
		}
		obls := run.generate(en, p)
		all = append(all, obls...)
	}
	maxNotProved = 24
	if *tier == "thorough" {
		maxNotProved = 200
	}
	// cover (vacuity) queries are obligations of kind "cover"
	genT := time.Since(t0)
	ors := dischargeAll(all, *timeout, 14)
	if *tier == "thorough" {
		ors = confirmTwice(all, ors, *timeout)
	}
	run.results = ors
	// verdicts
	kfs := loadKnownFindings(filepath.Join(*verif, "known_findings.json"))
	violations := 0
	skipped := 0
	os.MkdirAll(filepath.Join(*verif, "replays", id), 0o755)
	for i, r := range ors {
		if r.Verdict == "proved" {
			continue
		}
		if r.Verdict == "skipped" {
			skipped++
			continue
		}
		if kf := matchFinding(kfs, id, r.Name); kf != nil {
			fmt.Printf("KNOWN-FINDING: property=%s %s (%s)\n", id, kf.What, kf.Obligation)
			continue
		}
		violations++
		run.tryReplay(&ors[i], all[i], *repo, filepath.Join(*verif, "replays", id))
		r = ors[i]
		path := writeReplay(*verif, id, all[i], r, *repo)
		suffix := ""
		if !r.Replayed {
			suffix = " no-failing-input-found"
		}
		fmt.Printf("VIOLATION property=%s replay=%s obligation=%s%s\n", id, path, r.Name, suffix)
		fmt.Printf("  %s [%s] %s\n", r.Detail, r.Pos, truncate(r.Info, 300))
	}
	for _, c := range run.coverBad {
		violations++
		path := filepath.Join(*verif, "replays", id, sanitize(c)+".json")
		os.WriteFile(path, []byte(fmt.Sprintf("{\"obligation\":%q,\"problem\":\"assumptions of this function instance are contradictory (vacuous proof)\"}\n", c)), 0o644)
		fmt.Printf("VIOLATION property=%s replay=%s obligation=%s no-failing-input-found\n", id, path, c)
	}
	wall := time.Since(t0)
	var evNotes []string
	if skipped > 0 {
		evNotes = append(evNotes, fmt.Sprintf("%d obligations were not attempted because the failure limit (%d) was reached; they are not counted as discharged", skipped, maxNotProved))
		fmt.Printf("%d further obligations not attempted (failure limit reached)\n", skipped)
	}
	writeEvidence(run, *verif, wall, violations, evNotes)
	proved := 0
	for _, r := range ors {
		if r.Verdict == "proved" {
			proved++
		}
	}
	fmt.Printf("%s %s: %d function instances in %d configurations, %d obligations, %d discharged, %d flow-decided, generation %.1fs, total %.1fs\n", id, *tier, len(run.instances), len(cfgs), len(ors), proved, run.flowOK, genT.Seconds(), wall.Seconds())
	if scratchDir != "" {
		os.RemoveAll(scratchDir)
	}
	if len(run.undecided) > 0 && violations == 0 {
		for _, u := range run.undecided {
			fmt.Printf("UNDECIDED property=%s: %s\n", id, u)
		}
		os.Exit(2)
	}
	if len(ors) == 0 {
		fmt.Printf("UNDECIDED property=%s: no obligations were generated\n", id)
		os.Exit(2)
	}
	if violations > 0 {
		os.Exit(1)
	}
}

func truncate(s string, n int) string {
	s = strings.ReplaceAll(s, "\n", " ")
	if len(s) > n {
		return s[:n] + "..."
	}
	return s
}

func matchFinding(kfs []KnownFinding, prop, name string) *KnownFinding {
	for i := range kfs {
		k := &kfs[i]
		if k.Status != "open" || k.Property != prop {
			continue
		}
		if strings.HasPrefix(name, k.Obligation) {
			return k
		}
	}
	return nil
}

// generate runs the VC generator for every function of the cone under one configuration.
func (run *checkRun) generate(en *Engine, p *PropSpec) []*Obligation {
	var out []*Obligation
	for _, ci := range p.Cone {
		var path string
		for _, pp := range pkgOrder {
			if strings.HasSuffix(pp, ci.Pkg) || (ci.Pkg == "." && pp == "github.com/oasisprotocol/ed25519") {
				path = pp
			}
		}
		pc := en.contracts[path]
		if pc == nil {
			run.undecided = append(run.undecided, fmt.Sprintf("no contract file for package %s under %s", ci.Pkg, en.cfgName))
			continue
		}
		keys := ci.Funcs
		if len(keys) == 0 {
			skip := map[string]bool{}
			for _, e := range ci.Exclude {
				skip[e] = true
			}
			for k := range pc.Funcs {
				if !skip[k] {
					keys = append(keys, k)
				}
			}
			sort.Strings(keys)
		}
		for _, k := range keys {
			fc := pc.Funcs[k]
			if fc == nil {
				// contract exists only in other configurations
				continue
			}
			fn := en.lookupFunc(path, k)
			if fn == nil {
				if fc.Hook && len(p.Tags) == 0 {
					continue // the hook function is only compiled for the property that needs it
				}
				run.undecided = append(run.undecided, fmt.Sprintf("contract %s.%s names a function that does not exist under configuration %s", ci.Pkg, k, en.cfgName))
				continue
			}
			run.funcs[en.funcKey(fn)] = true
			if fc.CTOnly {
				continue
			}
			if fc.Assumed {
				run.assumed[en.funcKey(fn)] = true
				continue
			}
			pats := append([]AliasPattern{nil}, fc.Alias...)
			for _, ap := range pats {
				cases := []int{-1}
				if len(fc.Cases) > 0 {
					cases = nil
					for i := range fc.Cases {
						cases = append(cases, i)
					}
				}
				binds := []bool{false}
				if len(fc.SliceBind) > 0 {
					binds = append(binds, true)
				}
				for _, ci := range cases {
				  for _, sb := range binds {
					en.sliceBindActive = sb
					r := en.VerifyFunction(fn, fc, pc, ap, ci)
					en.sliceBindActive = false
					for _, e := range r.Errors {
						run.undecided = append(run.undecided, fmt.Sprintf("%s{%s}[%s]: %s", r.Func, r.AliasCase, en.cfgName, e))
					}
					run.instances = append(run.instances, instanceInfo{Func: r.Func, Config: en.cfgName, Alias: r.AliasCase, Paths: r.Paths, Obls: len(r.Obligations)})
					run.insts[r.InstName+"["+en.cfgName+"]"] = instRef{en, r}
					out = append(out, r.Obligations...)
					if r.Cover != nil {
						out = append(out, r.Cover)
					} else if len(r.Errors) == 0 {
						run.coverBad = append(run.coverBad, en.curFunc+"["+en.cfgName+"]/cover (no returning path)")
					}
				  }
				}
			}
		}
	}
	for _, fl := range p.Flow {
		if fl == "ct" {
			out = append(out, en.CTCheck(run)...)
		}
		if fl == "globals" {
			out = append(out, en.GlobalsCheck(run)...)
		}
	}
	if p.Ground {
		_, grs := en.GroundFacts()
		for _, g := range grs {
			goal := True()
			if !g.OK {
				goal = False()
			}
			out = append(out, &Obligation{Name: g.Name + "[" + en.cfgName + "]", Kind: "ground", Func: "tables", Goal: goal, Detail: "table entry against the executable curve specification: " + g.Detail})
		}
	}
	for k := range en.assumedUsed {
		run.assumed[k] = true
	}
	for k := range en.usedAxioms {
		run.axioms[k] = true
	}
	for k := range en.externCalls {
		run.externs[k] = true
	}
	for k := range en.unsafeUses {
		run.externs["unsafe: "+k] = true
	}
	for k := range en.missingAnchors {
		run.externs["lemma anchor missing in the code: "+k] = true
		// the contract names a call/store that the code no longer contains: it does not attach
		run.undecided = append(run.undecided, fmt.Sprintf("[%s] the anchor of a cut/lemma clause no longer exists in the code: %s", en.cfgName, k))
	}
	for k := range en.inlined {
		run.inlined[k] = true
	}
	run.cuts += len(en.usedCuts)
	run.loops += len(en.usedLoops)
	run.flowOK += en.flowOK
	return out
}

// confirmTwice re-runs solver-decided obligations on a second, different solver (thorough tier).
func confirmTwice(obls []*Obligation, ors []OblResult, timeout time.Duration) []OblResult {
	type job struct{ i int }
	var jobs []int
	for i, r := range ors {
		if r.Verdict == "proved" && (r.Backend == "z3" || r.Backend == "z3-new" || r.Backend == "cvc5") {
			jobs = append(jobs, i)
		}
	}
	sem := make(chan struct{}, 8)
	done := make(chan struct{}, len(jobs))
	for _, i := range jobs {
		i := i
		sem <- struct{}{}
		go func() {
			defer func() { <-sem; done <- struct{}{} }()
			var others []string
			for _, sp := range solverSpecs {
				if sp.name != ors[i].Backend {
					others = append(others, sp.name)
				}
			}
			q := &Query{Facts: obls[i].Facts, Goal: obls[i].Goal, Axioms: obls[i].Axioms}
			if obls[i].Kind == "cover" {
				return
			}
			sr := Solve(q, timeout, false, others)
			if sr.Verdict == "unsat" {
				ors[i].Backend += "+" + sr.Solver
			} else {
				ors[i].Info += " (second solver: " + sr.Verdict + ")"
			}
		}()
	}
	for range jobs {
		<-done
	}
	return ors
}

func writeReplay(verif, id string, o *Obligation, r OblResult, repo string) string {
	path := filepath.Join(verif, "replays", id, sanitize(r.Name)+".json")
	rep := map[string]interface{}{
		"property":    id,
		"obligation":  r.Name,
		"kind":        r.Kind,
		"function":    r.Func,
		"detail":      r.Detail,
		"position":    r.Pos,
		"verdict":     r.Verdict,
		"backend":     r.Backend,
		"solver_info": r.Info,
		"model":       r.Model,
	}
	if r.Script != "" {
		sp := strings.TrimSuffix(path, ".json") + ".smt2"
		os.WriteFile(sp, []byte(r.Script), 0o644)
		rep["smt2"] = sp
	}
	if r.ReplayLog != "" {
		rep["replay_on_real_code"] = r.ReplayLog
		rep["replay_cmd"] = r.ReplayCmd
	}
	b, _ := json.MarshalIndent(rep, "", " ")
	os.WriteFile(path, b, 0o644)
	return path
}

func runReplayFile(path, repo string) int {
	data, err := os.ReadFile(path)
	if err != nil {
		fmt.Fprintln(os.Stderr, err)
		return 2
	}
	var rep map[string]interface{}
	json.Unmarshal(data, &rep)
	fmt.Printf("obligation: %v\nverdict: %v\n%v\n", rep["obligation"], rep["verdict"], rep["detail"])
	if c, ok := rep["replay_cmd"].(string); ok && c != "" {
		fmt.Println("replay command:", c)
	}
	fmt.Printf("%v\n", rep["replay_on_real_code"])
	return 1
}

func writeEvidence(run *checkRun, verif string, wall time.Duration, violations int, extra []string) {
	obls, proved := 0, 0
	backends := map[string]int{}
	kinds := map[string]int{}
	solverT := 0.0
	maxT := 0.0
	var samples []map[string]interface{}
	for _, r := range run.results {
		obls++
		kinds[r.Kind]++
		if r.Verdict == "proved" {
			proved++
			backends[r.Backend]++
		}
		solverT += r.Time
		if r.Time > maxT {
			maxT = r.Time
		}
	}
	// a few samples: one per kind
	seenK := map[string]bool{}
	for _, r := range run.results {
		k := r.Kind
		if i := strings.Index(k, "@"); i >= 0 {
			k = k[:i]
		}
		if seenK[k] || len(samples) >= 12 {
			continue
		}
		seenK[k] = true
		samples = append(samples, map[string]interface{}{"obligation": r.Name, "kind": r.Kind, "proves": r.Detail, "verdict": r.Verdict, "backend": r.Backend, "time_s": r.Time})
	}
	var funcs, assumed, inlined []string
	for k := range run.funcs {
		funcs = append(funcs, k)
	}
	for k := range run.assumed {
		assumed = append(assumed, k)
	}
	for k := range run.inlined {
		inlined = append(inlined, k)
	}
	sort.Strings(funcs)
	sort.Strings(assumed)
	sort.Strings(inlined)
	trusted := append([]string(nil), commonTrusted...)
	trusted = append(trusted, run.prop.Trusted...)
	for _, a := range assumed {
		trusted = append(trusted, "assumed contract / postcondition (not verified of the body): "+a)
	}
	var axs, exts []string
	for k := range run.axioms {
		axs = append(axs, k)
	}
	for k := range run.externs {
		exts = append(exts, k)
	}
	sort.Strings(axs)
	sort.Strings(exts)
	for _, a := range axs {
		trusted = append(trusted, "axiom used: "+a)
	}
	for _, a := range exts {
		trusted = append(trusted, "model: "+a)
	}
	ev := map[string]interface{}{
		"property_id": run.prop.ID,
		"tier":        run.tier,
		"seed":        run.seed,
		"level":       "proof",
		"coverage": map[string]interface{}{
			"obligations":              obls,
			"discharged":               proved,
			"checker_cmd":              fmt.Sprintf("/verif/bin/check %s --tier %s", run.prop.ID, run.tier),
			"trusted_base":             trusted,
			"samples":                  samples,
			"functions_under_contract": funcs,
			"function_instances":       len(run.instances),
			"configurations":           run.configs,
			"obligations_by_kind":      kinds,
			"discharged_by_backend":    backends,
			"decided_by_flow_backend":  run.flowOK,
			"verdicts_reused_from_memo": func() int {
				n := 0
				for k, v := range backends {
					if strings.HasPrefix(k, "memo:") {
						n += v
					}
				}
				return n
			}(),
			"memo_note": "quick tier: a query identical (SHA-256 of its full structure up to variable renaming) to one discharged in an earlier run on this machine is not re-sent to the back ends (back end shown as memo:<original>); every obligation is still regenerated from /repo; the thorough tier ignores the memo",
			"solver_time_s":            solverT,
			"slowest_obligation_s":     maxT,
			"per_obligation_timeout_s": run.timeout.Seconds(),
			"loops_with_invariants":    run.loops,
			"cuts_used":                run.cuts,
			"inlined_callees":          inlined,
			"cover_queries":            kinds["cover"],
			"undecided_attachment":     run.undecided,
			"explanation":              "every obligation generated from /repo's working tree for the functions listed under functions_under_contract was discharged; machine integers are modelled as mathematical integers with explicit wrap-around (the wrap is dropped only under a side condition discharged as an `exact` obligation)",
			"notes":                    extra,
		},
		"assumptions": func() []string {
			a := append([]string{}, run.prop.Assumptions...)
			a = append(a, "every item of coverage.trusted_base (assumed contracts and postconditions, axioms, library models) is assumed, not checked", "termination is not proved; machine integers are modelled as mathematical integers with explicit wrap-around")
			return a
		}(),
		"wall_s":      wall.Seconds(),
		"violations":  violations,
	}
	os.MkdirAll(filepath.Join(verif, "evidence"), 0o755)
	b, _ := json.MarshalIndent(ev, "", " ")
	os.WriteFile(filepath.Join(verif, "evidence", run.prop.ID+".json"), b, 0o644)
}

// tryReplay runs the counterexample of a failed obligation on the real code.
func (run *checkRun) tryReplay(r *OblResult, o *Obligation, repo, dir string) {
	if len(r.Model) == 0 {
		return
	}
	// obligation names look like  <inst>[<cfg>]/<kind>#n
	i := strings.LastIndex(r.Name, "/")
	if i < 0 {
		return
	}
	ref, ok := run.insts[r.Name[:i]]
	if !ok || ref.res.Replay == nil {
		return
	}
	src, ok := ref.res.Replay.genTest(r.Model)
	if !ok {
		return
	}
	work, err := os.MkdirTemp("", "govc-replay-")
	if err != nil {
		return
	}
	defer os.RemoveAll(work)
	ro := runReplay(repo, ref.res.Replay, src, work)
	r.ReplayCmd = ro.Cmd
	tsrc := filepath.Join(dir, sanitize(r.Name)+"_test.go.txt")
	os.MkdirAll(dir, 0o755)
	os.WriteFile(tsrc, []byte(src), 0o644)
	if !ro.Ran {
		r.ReplayLog = "replay did not run: " + truncate(ro.Log, 600)
		return
	}
	fc := ref.res.Contract
	if ro.Panicked {
		if fc.Panics == nil && !fc.MayPanic {
			r.Replayed = true
			r.ReplayLog = "the real function panics on this input although its contract forbids it; test source: " + tsrc + "\n" + truncate(ro.Log, 600)
		} else {
			r.ReplayLog = "the real function panics on this input (allowed by the contract under a condition); test source: " + tsrc
		}
		return
	}
	viol, und := ref.en.checkPostsConcrete(ref.res.Replay, fc, ref.res.PC, r.Model, ro)
	if len(viol) > 0 {
		r.Replayed = true
		r.ReplayLog = fmt.Sprintf("replayed on the real code (%s): postcondition(s) false on the real outputs: %s; test source: %s", ref.res.Replay.Config.Name, strings.Join(viol, " ;; "), tsrc)
	} else {
		r.ReplayLog = fmt.Sprintf("the real code ran on the model input and every evaluable postcondition held (%d not evaluable); test source: %s", len(und), tsrc)
	}
}
