package main

// Ground instantiation of the group axioms. The contracts' group-level facts have the
// shapes  X == padd(A, B),  X == pdbl(A),  X == psub(A, B),  X == mulB(k),  X == lc2(Q, a, b).
// Instead of leaving quantified axioms to the solvers' E-matching, this pass propagates
// closed forms through those equations and emits the corresponding ground instances
//     padd(mulB(a), mulB(b)) == mulB(a+b)          [GADD]
//     pdbl(mulB(a))          == mulB(2a)           [GDBL]
//     padd(lc2(Q,a,b), lc2(Q,c,d)) == lc2(Q,a+c,b+d), padd(lc2(Q,a,b), mulB(k)) == lc2(Q,a,b+k),
//     psub(...) likewise with subtraction, pdbl(lc2(Q,a,b)) == lc2(Q,2a,2b)   [GLC]
//     ptN0(a,b,c) == mulB(k)  ==>  ptN(a,b,(c*D) mod P) == mulB(k)            [N0TON]
// as derived facts  T == mulB(k) / T == lc2(Q,a,b). Only instances of axioms the function's
// contract lists under `uses` are generated; each is a consequence of that axiom.

import (
	"fmt"
	"math/big"
	"os"
)

type closedForm struct {
	q    *Term // nil: multiple of B; else lc2 base point term
	a, b *Term // lc2 coefficients (a unused when q == nil; b is the B-multiple)
}

func (c closedForm) term() *Term {
	if c.q == nil {
		return UF("mulB", Sort("Pt"), c.b)
	}
	return UF("lc2", Sort("Pt"), c.q, c.a, c.b)
}

func combine(x, y closedForm, sign int64) (closedForm, bool) {
	s := bi(sign)
	switch {
	case x.q == nil && y.q == nil:
		return closedForm{b: Add(x.b, MulC(y.b, s))}, true
	case x.q != nil && y.q == nil:
		return closedForm{q: x.q, a: x.a, b: Add(x.b, MulC(y.b, s))}, true
	case x.q == nil && y.q != nil:
		return closedForm{q: y.q, a: MulC(y.a, s), b: Add(x.b, MulC(y.b, s))}, true
	case x.q == y.q:
		return closedForm{q: x.q, a: Add(x.a, MulC(y.a, s)), b: Add(x.b, MulC(y.b, s))}, true
	}
	return closedForm{}, false
}

// instantiateGroupAxioms returns derived ground facts for the given fact list.
func instantiateGroupAxioms(facts []*Term, uses map[string]bool, dConst, pConst *big.Int) []*Term {
	if !uses["GADD"] && !uses["GLC"] {
		return nil
	}
	flat := flattenFacts(facts)
	known := map[int]closedForm{}
	var derived []*Term
	isPt := func(t *Term) bool { return t.sort == Sort("Pt") }
	note := func(t *Term, c closedForm, emit bool) bool {
		if _, ok := known[t.id]; ok {
			return false
		}
		known[t.id] = c
		if emit {
			derived = append(derived, Eq(t, c.term()))
		}
		return true
	}
	var direct func(t *Term) (closedForm, bool)
	direct = func(t *Term) (closedForm, bool) {
		if c, ok := known[t.id]; ok {
			return c, true
		}
		if t.op != OUF {
			return closedForm{}, false
		}
		switch t.name {
		case "mulB":
			return closedForm{b: t.args[0]}, true
		case "lc2":
			if uses["GLC"] {
				return closedForm{q: t.args[0], a: t.args[1], b: t.args[2]}, true
			}
		case "padd", "psub":
			x, ok1 := direct(t.args[0])
			y, ok2 := direct(t.args[1])
			if ok1 && ok2 {
				sign := int64(1)
				if t.name == "psub" {
					sign = -1
				}
				if c, ok := combine(x, y, sign); ok {
					note(t, c, true)
					return c, true
				}
			}
		case "pdbl":
			if x, ok := direct(t.args[0]); ok && (uses["GDBL"] || uses["GLC"]) {
				c, _ := combine(x, x, 1)
				note(t, c, true)
				return c, true
			}
		case "pneg":
			if x, ok := direct(t.args[0]); ok && uses["GLC"] {
				zero := closedForm{b: ConstI(0)}
				c, _ := combine(zero, x, -1)
				note(t, c, true)
				return c, true
			}
		}
		return closedForm{}, false
	}
	// conditional definitions  c ==> X == F1,  !c ==> X == F2  (callee contracts that distinguish a sign bit)
	type condDef struct {
		c, x, rhs *Term
	}
	var conds []condDef
	for _, f := range flat {
		if f.op == OImp && f.args[1].op == OEq && isPt(f.args[1].args[0]) {
			conds = append(conds, condDef{f.args[0], f.args[1].args[0], f.args[1].args[1]})
		}
	}
	if os.Getenv("GOVC_DEBUG") != "" {
		for _, c := range conds {
			fmt.Fprintf(os.Stderr, "gcond: %s ==> X%d == %s\n", c.c.str(3), c.x.id, c.rhs.str(1))
		}
	}
	for changed := true; changed; {
		changed = false
		for i := range conds {
			for j := range conds {
				a, b := conds[i], conds[j]
				if i == j || a.x != b.x || Not(a.c) != b.c {
					continue
				}
				if _, ok := known[a.x.id]; ok {
					continue
				}
				ca, ok1 := direct(a.rhs)
				cb, ok2 := direct(b.rhs)
				if os.Getenv("GOVC_DEBUG") != "" {
					_, k0 := direct(a.rhs.args[0])
					_, k1 := direct(a.rhs.args[1])
					fmt.Fprintf(os.Stderr, "gpair X%d: ok1=%v ok2=%v arg0known=%v arg1known=%v\n", a.x.id, ok1, ok2, k0, k1)
				}
				if !ok1 || !ok2 || ca.q != cb.q {
					continue
				}
				cf := closedForm{q: ca.q, b: Ite(a.c, ca.b, cb.b)}
				if ca.q != nil {
					cf.a = Ite(a.c, ca.a, cb.a)
				}
				if note(a.x, cf, true) {
					changed = true
				}
			}
		}
		for _, f := range flat {
			if f.op != OEq || !isPt(f.args[0]) {
				continue
			}
			a, b := f.args[0], f.args[1]
			ca, oka := direct(a)
			cb, okb := direct(b)
			switch {
			case oka && !okb:
				if note(b, ca, true) {
					changed = true
				}
			case okb && !oka:
				if note(a, cb, true) {
					changed = true
				}
			}
			// N0TON: ptN0(a,b,c) with closed form k  =>  ptN(a,b,(c*D)%P) has the same closed form
			if uses["N0TON"] {
				for _, t := range []*Term{a, b} {
					if t.op == OUF && t.name == "ptN0" {
						if c, ok := direct(t); ok {
							n := UF("ptN", Sort("Pt"), t.args[0], t.args[1], Mod(MulC(t.args[2], dConst), pConst))
							if note(n, c, true) {
								changed = true
							}
						}
					}
				}
			}
		}
	}
	return derived
}
