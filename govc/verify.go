package main

import (
	"fmt"
	"go/ast"
	"go/types"
	"sort"
	"strings"

	"golang.org/x/tools/go/ssa"
)

var pkgOrder = []string{
	"github.com/oasisprotocol/ed25519/internal/curve25519",
	"github.com/oasisprotocol/ed25519/internal/modm",
	"github.com/oasisprotocol/ed25519/internal/ge25519",
	"github.com/oasisprotocol/ed25519",
	"github.com/oasisprotocol/ed25519/extra/x25519",
}

func (sc *specCtx) lvalue(e ast.Expr) Value {
	switch x := e.(type) {
	case *ast.ParenExpr:
		return sc.lvalue(x.X)
	case *ast.SliceExpr:
		return sc.eval(e)
	case *ast.Ident:
		// a slice parameter named alone means its whole window
		v := sc.eval(e)
		if s, ok := v.(SliceV); ok {
			return s
		}
		fail("modifies: %s is not a location", x.Name)
	}
	return sc.addrOf(e)
}

type FuncResult struct {
	Func        string
	Config      string
	AliasCase   string
	Paths       int
	Returned    int
	Panicked    int
	Errors      []string
	Obligations []*Obligation
	Cover       *Obligation
	Replay      *ReplayInfo
	InstName    string
	Contract    *FuncContract
	PC          *PkgContracts
}

// makeParam creates the symbolic value of a parameter.
func (en *Engine) makeParam(st *State, name string, t types.Type, shared map[string]*Region, aliasRoot string) Value {
	var facts []*Term
	defer func() {
		for _, f := range facts {
			st.assume(f)
		}
	}()
	switch u := t.Underlying().(type) {
	case *types.Pointer:
		key := aliasRoot
		if r, ok := shared[key]; ok && key != "" {
			return PtrV{R: r}
		}
		r := en.newRegion(name, u.Elem(), "param")
		st.mem[r] = freshCell(u.Elem(), name, &facts)
		if key != "" {
			shared[key] = r
		}
		return PtrV{R: r}
	case *types.Slice:
		if _, isScalar := u.Elem().Underlying().(*types.Basic); !isScalar {
			return en.makeParamAPI(st, name, t, &facts)
		}
		r := en.newRegion(name, t, "param")
		ln := Var(name+".len", SInt)
		cp := Var(name+".cap", SInt)
		facts = append(facts, Le(ConstI(0), ln), Le(ln, cp), Le(cp, Const(pow2(wordBits-2))))
		st.mem[r] = &SymArrCell{Arr: Var(name+".arr", SArr), N: cp, Elem: u.Elem()}
		return SliceV{R: r, Off: ConstI(0), Len: ln, Cap: cp, Elem: u.Elem()}
	case *types.Basic:
		if _, _, ok := intInfo(t); ok || isBool(t) {
			lo, hi, isInt := typeRange(t)
			if isInt {
				v := Var(name, SInt)
				facts = append(facts, Le(Const(lo), v), Le(v, Const(hi)))
				return v
			}
			return Var(name, SBool)
		}
	}
	return en.makeParamAPI(st, name, t, &facts)
}

func (en *Engine) funcKey(fn *ssa.Function) string {
	return fn.Pkg.Pkg.Name() + "." + fn.RelString(fn.Pkg.Pkg)
}

// VerifyFunction checks fn against its contract for one alias pattern.
func (en *Engine) VerifyFunction(fn *ssa.Function, fc *FuncContract, pc *PkgContracts, ap AliasPattern, caseIdx int) (res *FuncResult) {
	res = &FuncResult{Func: en.funcKey(fn), Config: en.cfgName}
	aliasName := ""
	root := map[string]string{}
	for _, cls := range ap {
		for _, n := range cls {
			root[n] = cls[0]
		}
		aliasName += strings.Join(cls, "==") + ";"
	}
	res.AliasCase = strings.TrimSuffix(aliasName, ";")
	en.curFunc = res.Func
	if res.AliasCase != "" {
		en.curFunc += "{" + res.AliasCase + "}"
	}
	if caseIdx >= 0 {
		en.curFunc += fmt.Sprintf("{case%d}", caseIdx+1)
	}
	en.paths = 0
	en.inlineNames = map[string]bool{}
	for _, n := range fc.Inline {
		en.inlineNames[n] = true
	}
	en.curUses = map[string]bool{}
	for _, n := range fc.Lemmas {
		en.curUses[n] = true
	}
	start := len(en.obls)
	defer func() {
		if r := recover(); r != nil {
			if ee, ok := r.(execError); ok {
				res.Errors = append(res.Errors, ee.msg)
			} else {
				// an internal error of the generator on this function: reported as "does not attach"
				// (UNDECIDED), never as a verdict
				res.Errors = append(res.Errors, fmt.Sprintf("internal error of the VC generator: %v", r))
			}
		}
		res.Obligations = en.obls[start:]
	}()
	depth := 0
	var hookState *State
	freshHook = func(t types.Type, prefix string, facts *[]*Term) (v Value) {
		if depth > 2 || hookState == nil {
			return nil
		}
		depth++
		defer func() {
			depth--
			if r := recover(); r != nil {
				v = nil
			}
		}()
		return en.freshOfType(hookState, t, prefix, facts)
	}
	defer func() { freshHook = nil }()
	st := &State{mem: map[*Region]Cell{}, bounds: NewBounds(), sideSeen: map[int]bool{}, typed: map[int]bool{}, cutDone: map[int]bool{}, freshRegions: map[*Region]bool{}, ifaceRefined: map[int]IfaceV{}, ifaceDenied: map[int]bool{}}
	hookState = st
	fr := &Frame{fn: fn, env: map[ssa.Value]Value{}, visits: map[int]int{}, loopSt: map[int]*loopState{}}
	if fn.Blocks == nil {
		res.Errors = append(res.Errors, "function has no Go body")
		return
	}
	fr.block = fn.Blocks[0]
	st.frames = []*Frame{fr}
	if len(fc.Params) != len(fn.Params) {
		fail("contract for %s lists %d parameters, function has %d", res.Func, len(fc.Params), len(fn.Params))
	}
	shared := map[string]*Region{}
	env := map[string]Value{}
	for i, p := range fn.Params {
		if fc.Params[i] != p.Name() && fc.Params[i] != "_" {
			fail("contract for %s: parameter %d is named %q in the code, %q in the contract", res.Func, i, p.Name(), fc.Params[i])
		}
		var v Value
		if g, ok := fc.SliceBind[p.Name()]; ok && en.sliceBindActive {
			gv := en.lookupGlobal(fn.Pkg.Pkg.Path(), g)
			if gv == nil {
				fail("contract of %s binds %s to unknown global %s", res.Func, p.Name(), g)
			}
			v = en.load(st, PtrV{R: en.globalRegion(gv)}, p.Type())
			// the parameter starts at the same element of the same array as the global slice, with a
			// length and capacity of its own (a prefix or an extension of it)
			if gs, ok := v.(SliceV); ok && gs.R != nil {
				ln := FreshVar(p.Name()+".len", SInt)
				cp := FreshVar(p.Name()+".cap", SInt)
				st.assume(Le(ConstI(0), ln))
				st.assume(Le(ln, cp))
				st.assume(Le(cp, gs.Cap))
				gs.Len, gs.Cap = ln, cp
				v = gs
			}
			en.curFunc += "{" + p.Name() + "==" + g + "}"
		} else if g, ok := fc.Binds[p.Name()]; ok {
			gv := en.lookupGlobal(fn.Pkg.Pkg.Path(), g)
			if gv == nil {
				fail("contract of %s binds %s to unknown global %s", res.Func, p.Name(), g)
			}
			v = PtrV{R: en.globalRegion(gv)}
		} else {
			v = en.makeParam(st, p.Name(), p.Type(), shared, root[p.Name()])
		}
		fr.env[p] = v
		env[p.Name()] = v
	}
	sc := &specCtx{en: en, pc: pc, fc: fc, st: st, env: env, oldEnv: env}
	for _, gname := range fc.HavocGlobals {
		gv := en.lookupGlobal(fn.Pkg.Pkg.Path(), gname)
		if gv == nil {
			fail("contract of %s: unknown global %s", res.Func, gname)
		}
		r := en.globalRegion(gv)
		var facts []*Term
		st.mem[r] = freshCell(r.typ, r.name, &facts)
		for _, f := range facts {
			st.assume(f)
		}
	}
	for _, r := range fc.Requires {
		st.assume(sc.evalBool(r.Expr))
	}
	if caseIdx >= 0 {
		st.assume(sc.evalBool(fc.Cases[caseIdx].Expr))
	}
	for _, name := range fc.Lemmas {
		if name == "ground_tables" {
			gf, _ := en.GroundFacts()
			st.facts = append(st.facts, gf...)
			en.usedAxioms["ground_tables [validated by evaluation against the executable curve specification]"] = true
			continue
		}
		ax, apc := en.findAxiom(name)
		if ax == nil {
			fail("contract of %s uses unknown axiom %s", res.Func, name)
		}
		asc := &specCtx{en: en, pc: apc, fc: fc, st: st, env: map[string]Value{}}
		st.facts = append(st.facts, asc.evalBool(ax.Body.Expr))
		en.usedAxioms[name+" ["+ax.Tag+"]"] = true
	}
	// parameters fixed to a constant by the assumptions become that constant
	for i, p := range fn.Params {
		if t, ok := fr.env[p].(*Term); ok && t.op == OVar {
			if iv := st.bounds.m[t.id]; iv.lo != nil && iv.hi != nil && iv.lo.Cmp(iv.hi) == 0 {
				fr.env[p] = Const(iv.lo)
				env[fn.Params[i].Name()] = Const(iv.lo)
			}
		}
	}
	entryMem := make(map[*Region]Cell, len(st.mem))
	for k, v := range st.mem {
		entryMem[k] = v
	}
	st.persist = append([]*Term(nil), st.facts...)
	sc.oldMem = entryMem
	res.InstName = en.curFunc
	res.Contract, res.PC = fc, pc
	func() {
		defer func() { recover() }()
		res.Replay = en.buildReplay(fn, st, env, allConfigs[en.cfgName])
	}()
	fr.spec = sc
	paramRegions := map[*Region]bool{}
	for r := range st.mem {
		paramRegions[r] = true
	}

	if fc.HasMod {
		wf := &writeFrame{entry: paramRegions}
		for _, m := range fc.Modifies {
			loc := sc.lvalue(m.Expr)
			switch l := loc.(type) {
			case PtrV:
				if l.R != nil {
					wf.allowed = append(wf.allowed, l)
				}
			case SliceV:
				if l.R != nil {
					wf.allowed = append(wf.allowed, l)
				}
			}
		}
		st.wframe = wf
	}

	// explore
	work := []*State{st}
	var finals []*State
	for len(work) > 0 {
		s := work[len(work)-1]
		work = work[:len(work)-1]
		for !s.done {
			extra := en.step(s)
			work = append(work, extra...)
			if len(en.pendingForks) > 0 {
				work = append(work, en.pendingForks...)
				en.pendingForks = nil
			}
		}
		if s.infeasible {
			continue
		}
		finals = append(finals, s)
	}
	res.Paths = len(finals)
	for _, s := range finals {
		if s.panicked {
			res.Panicked++
			en.checkPanic(s, sc, fc)
			continue
		}
		res.Returned++
		en.checkReturn(s, sc, fc, fn, entryMem, paramRegions)
		if res.Cover == nil {
			res.Cover = &Obligation{Name: en.curFunc + "[" + en.cfgName + "]/cover#1", Kind: "cover", Func: en.curFunc, Facts: s.facts[:len(s.facts):len(s.facts)], Goal: nil, Detail: "vacuity guard: the assumptions along a returning path (preconditions, invariants, callee postconditions) are satisfiable"}
		}
	}
	if res.Cover == nil && len(finals) > 0 {
		// only panicking paths: cover one of them
		s := finals[0]
		res.Cover = &Obligation{Name: en.curFunc + "[" + en.cfgName + "]/cover#1", Kind: "cover", Func: en.curFunc, Facts: s.facts[:len(s.facts):len(s.facts)], Goal: nil, Detail: "vacuity guard: the assumptions along a terminating path are satisfiable"}
	}
	return
}

func (en *Engine) checkPanic(s *State, sc0 *specCtx, fc *FuncContract) {
	if fc.MayPanic {
		return
	}
	if fc.Panics == nil {
		en.addObl(s, "panic", False(), "function must not panic: "+s.panicMsg+" is reachable only if this is satisfiable", s.panicMsg)
		return
	}
	sc := *sc0
	sc.st = s
	sc.inOld = true
	g := sc.evalBool(fc.Panics.Expr)
	en.addObl(s, "panic", g, "panic ("+s.panicMsg+") only under the documented condition: "+fc.Panics.Src, s.panicMsg)
}

func (en *Engine) checkReturn(s *State, sc0 *specCtx, fc *FuncContract, fn *ssa.Function, entryMem map[*Region]Cell, paramRegions map[*Region]bool) {
	sc := *sc0
	sc.st = s
	sc.env = map[string]Value{}
	for k, v := range sc0.env {
		sc.env[k] = v
	}
	if s.result != nil {
		sc.env["result"] = s.result
		if tv, ok := s.result.(TupleV); ok {
			for i, v := range tv {
				sc.env[fmt.Sprintf("result%d", i)] = v
			}
		}
	}
	if fc.Panics != nil {
		o := sc
		o.inOld = true
		g := Not(o.evalBool(fc.Panics.Expr))
		if !g.IsTrue() {
			en.addObl(s, "mustpanic", g, "function returns normally only when the documented panic condition is false: "+fc.Panics.Src, "")
		}
	}
	for i, e := range fc.Ensures {
		g := sc.evalBool(e.Expr)
		path := ""
		if n := len(s.trace); n > 0 {
			k := n - 4
			if k < 0 {
				k = 0
			}
			path = " {path: " + strings.Join(s.trace[k:], "; ") + "}"
		}
		o := en.addObl(s, "post", g, fmt.Sprintf("postcondition #%d: %s%s", i+1, e.Src, path), e.Line)
		o.Alg = true
	}
	if fc.HasMod {
		en.checkFrame(s, &sc, fc, entryMem, paramRegions)
	}
}

// checkFrame: everything reachable by the caller outside `modifies` is unchanged.
func (en *Engine) checkFrame(s *State, sc *specCtx, fc *FuncContract, entryMem map[*Region]Cell, paramRegions map[*Region]bool) {
	// expected memory = entry memory with the modified locations taken from the final memory
	exp := make(map[*Region]Cell, len(entryMem))
	for r, c := range entryMem {
		exp[r] = c
	}
	tmp := &State{mem: exp, bounds: s.bounds, sideSeen: map[int]bool{}, typed: s.typed, facts: s.facts}
	for _, m := range fc.Modifies {
		o := *sc
		o.inOld = true // locations are named in terms of entry values
		loc := o.lvalue(m.Expr)
		switch l := loc.(type) {
		case PtrV:
			if l.R == nil {
				continue
			}
			c, _ := en.loadPath(s, en.regionCell(s, l.R), l.Path, l.R.typ)
			tmp.mem[l.R] = en.storePath(tmp, en.regionCell(tmp, l.R), l.Path, l.R.typ, c)
		case SliceV:
			if l.R == nil {
				continue
			}
			en.copyRange(s, tmp, l)
		}
	}
	var regs []*Region
	for r := range paramRegions {
		regs = append(regs, r)
	}
	for r := range s.mem {
		if r.kind == "global" {
			if r.global == nil || r.global.Pkg == nil || !modulePkg(r.global.Pkg.Pkg.Path()) {
				continue // variables of other packages are outside the module's frame
			}
			if _, ok := exp[r]; !ok {
				exp[r] = en.globalCell(s, r)
			}
			if !paramRegions[r] {
				regs = append(regs, r)
			}
		}
	}
	sort.Slice(regs, func(i, j int) bool { return regs[i].id < regs[j].id })
	for _, r := range regs {
		fin := s.mem[r]
		want := tmp.mem[r]
		if cellEqual(fin, want) {
			en.flowOK++
			continue
		}
		g := cellsEqualTerm(fin, want)
		o := en.addObl(s, "frame", g, fmt.Sprintf("memory of %s outside the modifies clause is unchanged", r.name), "")
		_ = o
	}
}

// copyRange copies the window l from state src's memory into dst's memory.
func (en *Engine) copyRange(src, dst *State, l SliceV) {
	sc, _ := en.loadPath(src, en.regionCell(src, l.R), l.Path, l.R.typ)
	if n, ok := l.Len.ConstInt(); ok {
		if _, isSym := sc.(*SymArrCell); !isSym || n <= 256 {
			for i := int64(0); i < n; i++ {
				p := en.sliceElemPtr(l, ConstI(i))
				v := en.load(src, p, l.Elem)
				en.store(dst, p, v)
			}
			return
		}
	}
	sa, ok := sc.(*SymArrCell)
	dc, _ := en.loadPath(dst, en.regionCell(dst, l.R), l.Path, l.R.typ)
	da, ok2 := dc.(*SymArrCell)
	if !ok || !ok2 {
		fail("frame: symbolic range in concrete array")
	}
	na := FreshVar("frame.arr", SArr)
	k := FreshVar("k", SInt)
	inr := And(Le(l.Off, k), Lt(k, Add(l.Off, l.Len)))
	src.assume(Forall(k, Eq(Select(na, k), Ite(inr, Select(sa.Arr, k), Select(da.Arr, k)))))
	dst.mem[l.R] = en.storePath(dst, en.regionCell(dst, l.R), l.Path, l.R.typ, &SymArrCell{Arr: na, N: da.N, Elem: da.Elem})
}

// ---------- loops with invariants ----------

// loopOrdinal numbers natural-loop headers of fn in block order (1-based).
func loopHeaders(fn *ssa.Function) map[int]int {
	// a block is a loop header if it has a predecessor with index >= its own (back edge in ssa's layout)
	// more precisely: an edge p -> b where b dominates p
	hs := map[int]int{}
	n := 0
	for _, b := range fn.Blocks {
		isH := false
		for _, p := range b.Preds {
			if b.Dominates(p) {
				isH = true
			}
		}
		if isH {
			n++
			hs[b.Index] = n
		}
	}
	return hs
}

func (en *Engine) loopHead(st *State, f *Frame, prev, b *ssa.BasicBlock) ([]*State, bool) {
	hs := en.loopHeadersOf(f.fn)
	ord, isH := hs[b.Index]
	if !isH {
		return nil, false
	}
	if len(st.frames) == 1 && !b.Dominates(prev) {
		for i, cs := range f.spec.fc.NamedCuts {
			if cs.Anchor == fmt.Sprintf("at loop#%d", ord) && !st.cutDone[2000+i] {
				st.cutDone[2000+i] = true
				en.applyCut(st, f, cs)
			}
		}
	}
	ls, has := f.spec.fc.Loops[ord]
	if !has || len(st.frames) != 1 {
		return nil, false
	}
	if len(ls.Invariants) == 0 && len(ls.Asserts) > 0 {
		// concretely unrolled loop with per-arrival lemmas
		en.usedLoops[fmt.Sprintf("%s#%d", en.curFunc, ord)] = true
		idx := -1
		for i, p := range b.Preds {
			if p == prev {
				idx = i
			}
		}
		var vals []Value
		var phis []*ssa.Phi
		for _, ins := range b.Instrs {
			phi, ok := ins.(*ssa.Phi)
			if !ok {
				break
			}
			phis = append(phis, phi)
			vals = append(vals, en.get(st, f, phi.Edges[idx]))
		}
		saved := map[*ssa.Phi]Value{}
		for i, p := range phis {
			if old, ok := f.env[p]; ok {
				saved[p] = old
			}
			f.env[p] = vals[i]
		}
		savedBlock := f.block
		f.block = b
		sc := *f.spec
		sc.st = st
		sc.locals = en.localsResolver(st, f)
		for i, a := range ls.Asserts {
			g := sc.evalBool(a.Expr)
			en.flushSide(st)
			en.addObl(st, fmt.Sprintf("loop-assert@loop%d", ord), g, fmt.Sprintf("loop#%d lemma #%d at an unrolled arrival: %s", ord, i+1, a.Src), a.Line)
			st.assume(g)
		}
		// naming: give the listed loop variables / cells fresh names (v == old term is kept as a fact)
		renamed := map[*ssa.Phi]Value{}
		for _, nm := range ls.Names {
			if id, ok := nm.Expr.(*ast.Ident); ok {
				done := false
				for _, p := range phis {
					if p.Comment == id.Name {
						if t, ok := f.env[p].(*Term); ok && t.op != OConst && t.op != OVar {
							v := FreshVar(f.fn.Name()+"."+id.Name, t.sort)
							st.assume(Eq(v, t))
							f.env[p] = v
							renamed[p] = v
						}
						done = true
					}
				}
				if done {
					continue
				}
			}
			loc := sc.lvalue(nm.Expr)
			p, ok := loc.(PtrV)
			if !ok {
				fail("loop name: unsupported location %s", nm.Src)
			}
			cur := en.load(st, p, sc.ptrElemType(p))
			if t, ok := cur.(*Term); ok && t.op != OConst && t.op != OVar {
				v := FreshVar(p.R.name+".n", t.sort)
				st.assume(Eq(v, t))
				en.store(st, p, v)
			}
		}
		if len(ls.Names) > 0 {
			sc2 := *f.spec
			sc2.st = st
			sc2.locals = en.localsResolver(st, f)
			for _, a := range ls.Asserts {
				st.assume(sc2.evalBool(a.Expr))
			}
		}
		f.block = savedBlock
		if len(renamed) > 0 {
			// enter the block here so that the renamed phis are kept
			f.visits[b.Index]++
			f.prev = prev
			f.block = b
			f.pc = 0
			return nil, true
		}
		return nil, false // normal block entry follows (phis are re-evaluated identically)
	}
	en.usedLoops[fmt.Sprintf("%s#%d", en.curFunc, ord)] = true
	back := b.Dominates(prev)
	if ls.Peel > 0 {
		lst := f.loopSt[b.Index]
		if lst == nil {
			lst = &loopState{}
			f.loopSt[b.Index] = lst
		}
		if !back {
			lst.arrivals = 0
			lst.entered = false
		}
		if !lst.entered {
			if lst.arrivals < ls.Peel {
				lst.arrivals++
				return nil, false // execute this iteration concretely
			}
			back = false // the invariant takes over from here: treat as loop entry
		}
	}
	// evaluate the phis for this edge so that invariants can refer to loop variables
	f.block = prev
	evalPhis := func(s *State, fr *Frame) {
		idx := -1
		for i, p := range b.Preds {
			if p == prev {
				idx = i
			}
		}
		var vals []Value
		var phis []*ssa.Phi
		for _, ins := range b.Instrs {
			phi, ok := ins.(*ssa.Phi)
			if !ok {
				break
			}
			phis = append(phis, phi)
			vals = append(vals, en.get(s, fr, phi.Edges[idx]))
		}
		for i, p := range phis {
			fr.env[p] = vals[i]
		}
	}
	evalPhis(st, f)
	f.block = b // names in invariants refer to the loop's own variables
	sc := *f.spec
	sc.st = st
	sc.locals = en.localsResolver(st, f)
	en.flushSide(st)
	kind := "inv-init"
	if back {
		kind = "inv-step"
	}
	for i, inv := range ls.Invariants {
		g := sc.evalBool(inv.Expr)
		o := en.addObl(st, fmt.Sprintf("%s@loop%d", kind, ord), g, fmt.Sprintf("loop#%d invariant #%d (%s): %s", ord, i+1, map[bool]string{false: "holds on entry", true: "is preserved"}[back], inv.Src), inv.Line)
		o.Alg = true
	}
	if back {
		// frame of the loop: cells not listed as modified are unchanged since the loop head
		lst := f.loopSt[b.Index]
		if lst != nil {
			en.checkLoopFrame(st, f, lst, ls, ord, &sc)
		}
		st.done, st.infeasible = true, true
		return nil, true
	}
	// entry: havoc loop-modified state, assume invariant, continue into the body once
	for _, m := range ls.Modifies {
		en.havocLoopTarget(st, f, &sc, m, b)
	}
	lmem := make(map[*Region]Cell, len(st.mem))
	for k, v := range st.mem {
		lmem[k] = v
	}
	f.loopSt[b.Index] = &loopState{entered: true, mem: lmem, arrivals: ls.Peel}
	sc2 := *f.spec
	sc2.st = st
	sc2.locals = en.localsResolver(st, f)
	for _, inv := range ls.Invariants {
		st.assume(sc2.evalBool(inv.Expr))
	}
	f.prev = prev
	f.block = b
	f.pc = 0
	// skip phi instructions (already set)
	return nil, true
}

func (en *Engine) loopHeadersOf(fn *ssa.Function) map[int]int {
	if h, ok := en.loopHdrCache[fn]; ok {
		return h
	}
	h := loopHeaders(fn)
	en.loopHdrCache[fn] = h
	return h
}

// localsResolver resolves source-level local names to their current SSA values
// (phi nodes / registers carrying a DebugRef or parameters), or to the
// contents of an Alloc with that name.
func (en *Engine) localsResolver(st *State, f *Frame) func(string) (Value, bool) {
	return func(name string) (Value, bool) {
		// several phis may carry the same source name (loops reusing i, j): take the one
		// whose block dominates the current block most closely
		var best Value
		var bestBlk *ssa.BasicBlock
		found := false
		for v, val := range f.env {
			switch x := v.(type) {
			case *ssa.Phi:
				if x.Comment != name {
					continue
				}
				blk := x.Block()
				if blk == f.block {
					return val, true
				}
				if blk.Dominates(f.block) {
					if bestBlk == nil || bestBlk.Dominates(blk) {
						best, bestBlk, found = val, blk, true
					}
				} else if bestBlk == nil && !found {
					best, found = val, true
				}
			case *ssa.Alloc:
				if x.Comment == name {
					p := val.(PtrV)
					if sc := st.mem[p.R]; sc != nil {
						// arrays and structs are named by their address (x.f, x[i], *x); variables that
						// only live in memory because a closure captures them are named by their value
						if et := x.Type().Underlying().(*types.Pointer).Elem(); !isAggType(et) {
							return en.load(st, p, et), true
						}
						return p, true
					}
				}
			case *ssa.Parameter:
				if x.Name() == name {
					return val, true
				}
			}
		}
		if found {
			return best, true
		}
		// a named register (DebugRef) of the current function
		for v, val := range f.env {
			if nm, ok := en.debugNames[v]; ok && nm == name {
				return val, true
			}
		}
		// a register whose DebugRef has not been executed yet (the anchor sits right after its definition)
		for _, b := range f.fn.Blocks {
			for _, ins := range b.Instrs {
				if d, ok := ins.(*ssa.DebugRef); ok && !d.IsAddr {
					if id, ok := d.Expr.(*ast.Ident); ok && id.Name == name {
						switch d.X.(type) {
						case *ssa.Phi, *ssa.Alloc, *ssa.Parameter, *ssa.Const:
							continue
						}
						if val, ok := f.env[d.X]; ok && val != nil {
							return val, true
						}
					}
				}
			}
		}
		return nil, false
	}
}

func (en *Engine) havocLoopTarget(st *State, f *Frame, sc *specCtx, m SpecExpr, hdr *ssa.BasicBlock) {
	// a bare identifier naming a phi of the header: fresh value
	if id, ok := m.Expr.(*ast.Ident); ok {
		for _, ins := range hdr.Instrs {
			phi, ok := ins.(*ssa.Phi)
			if !ok {
				break
			}
			if phi.Comment == id.Name {
				f.env[phi] = en.freshValue(st, phi.Type(), f.fn.Name()+"."+id.Name)
				return
			}
		}
		// a local variable living in memory (Alloc): havoc its contents
		if p, ok := localAlloc(st, f, id.Name); ok {
			{
				var facts []*Term
				st.mem[p.R] = freshCell(p.R.typ, p.R.name+".l", &facts)
				for _, fct := range facts {
					st.assume(fct)
				}
				return
			}
		}
		// a variable that exists but is not carried around this loop is not modified by it
		if _, ok := sc.locals(id.Name); ok {
			return
		}
		for _, p := range f.fn.Params {
			if p.Name() == id.Name {
				return
			}
		}
		fail("loop modifies: no loop variable or local named %s", id.Name)
	}
	en.havocLvalue(st, sc, m)
}

// localAlloc finds the memory cell of a named local variable.
func localAlloc(st *State, f *Frame, name string) (PtrV, bool) {
	for v, val := range f.env {
		if a, ok := v.(*ssa.Alloc); ok && a.Comment == name {
			if p, ok := val.(PtrV); ok && st.mem[p.R] != nil {
				return p, true
			}
		}
	}
	return PtrV{}, false
}

func (en *Engine) checkLoopFrame(st *State, f *Frame, lst *loopState, ls *LoopSpec, ord int, sc *specCtx) {
	// memory at the end of the body = memory at the loop head, except at the listed locations
	listed := map[*Region]bool{}
	exp := make(map[*Region]Cell, len(lst.mem))
	for r, c := range lst.mem {
		exp[r] = c
	}
	tmp := &State{mem: exp, bounds: st.bounds, sideSeen: map[int]bool{}, typed: st.typed, facts: st.facts}
	for _, m := range ls.Modifies {
		if id, ok := m.Expr.(*ast.Ident); ok {
			if p, ok := localAlloc(st, f, id.Name); ok {
				listed[p.R] = true
			}
			continue
		}
		switch l := sc.lvalue(m.Expr).(type) {
		case PtrV:
			if l.R == nil || exp[l.R] == nil || st.mem[l.R] == nil {
				continue
			}
			if len(l.Path) == 0 {
				listed[l.R] = true
				continue
			}
			c, _ := en.loadPath(st, en.regionCell(st, l.R), l.Path, l.R.typ)
			tmp.mem[l.R] = en.storePath(tmp, en.regionCell(tmp, l.R), l.Path, l.R.typ, c)
		case SliceV:
			if l.R == nil || exp[l.R] == nil || st.mem[l.R] == nil {
				continue
			}
			func() {
				defer func() {
					if r := recover(); r != nil {
						if _, ok := r.(execError); !ok {
							panic(r)
						}
						listed[l.R] = true // range not expressible: fall back to the whole region
					}
				}()
				en.copyRange(st, tmp, l)
			}()
		}
	}
	for r := range lst.mem {
		c := tmp.mem[r]
		if listed[r] {
			continue
		}
		if now, ok := st.mem[r]; ok && !cellEqual(now, c) {
			en.addObl(st, fmt.Sprintf("loop-frame@loop%d", ord), cellsEqualTerm(now, c), fmt.Sprintf("loop#%d leaves %s unchanged (not in its modifies list)", ord, r.name), "")
		}
	}
}
