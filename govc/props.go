package main

// Property -> cone of functions under contract, configurations, trusted base.

type ConeItem struct {
	Pkg     string   // package path suffix
	Funcs   []string // contract keys; empty = every contract of the package
	Exclude []string // contract keys left out when Funcs is empty
}

type PropSpec struct {
	ID          string
	Cone        []ConeItem
	Quick       []string // build configurations verified in the quick tier
	Thorough    []string
	Flow        []string // additional flow/frame engines: "ct", "globals", "fresh"
	Ground      bool     // include the ground obligations about the constant tables
	Tags        []string // extra build tags for loading /repo (hooks needed by this property only)
	Lemmas      []string // named lemmas (contract-file `lemma` declarations) that must be discharged
	Trusted     []string
	Assumptions []string
	Technique   string
}

// build configurations: table selector {assembly, Go} x conditional move {unsafe, subtle} x limbs {64, 32};
// the assembly selector exists only with 64-bit limbs and does not use the conditional move, so
// default, noasm, noasm+appengine, force32bit, force32bit+appengine cover every combination that
// is compiled; appengine alone and GOARCH=386 (32-bit int, 32-bit word path of the unsafe move) complete the list.
var allSix = []string{"default", "force32bit", "noasm", "noasm,appengine", "force32bit,appengine", "appengine", "386"}
var twoLayouts = []string{"default", "force32bit"}

var commonTrusted = []string{
	"Go compiler/assembler/runtime; golang.org/x/tools go/ssa v0.29.0 faithfully represents the program",
	"govc itself (symbolic executor, term simplifier, polynomial normaliser) and the SMT solvers z3 4.8.12, z3 5.1.0, cvc5 1.0.3",
	"built-in exact meanings of math/bits.Mul64/Add64 and encoding/binary.LittleEndian.{Uint32,Uint64,PutUint32,PutUint64}",
}

var curveAll = ConeItem{Pkg: "internal/curve25519"}
var modmAll = ConeItem{Pkg: "internal/modm"}
var geAll = ConeItem{Pkg: "internal/ge25519"}
var edVerify = ConeItem{Pkg: ".", Funcs: []string{"verify", "Verify", "VerifyWithOptions", "verifyWithOptionsNoPanic", "scMinimal", "isSmallOrderVartime", "(*Options).unwrap", "checkHash", "(*Options).HashFunc"}}
var edSign = ConeItem{Pkg: ".", Funcs: []string{"NewKeyFromSeed", "sign", "Sign", "(PrivateKey).Sign", "(*Options).unwrap", "checkHash", "(*Options).HashFunc"}}
var edKeys = ConeItem{Pkg: ".", Funcs: []string{"GenerateKey", "NewKeyFromSeed", "(PrivateKey).Public", "(PrivateKey).Seed", "(PrivateKey).Equal", "(PublicKey).Equal"}}
var edAll = ConeItem{Pkg: "."}
var edNoBatch = ConeItem{Pkg: ".", Exclude: []string{"VerifyBatch", "isNeutralVartime", "multiScalarmultVartime"}}
var edBatch = ConeItem{Pkg: ".", Funcs: []string{"VerifyBatch", "isNeutralVartime", "multiScalarmultVartime", "verifyWithOptionsNoPanic", "scMinimal", "isSmallOrderVartime", "checkHash", "(*Options).unwrap", "(*Options).HashFunc"}}
var xAll = ConeItem{Pkg: "extra/x25519"}

const techGovc = "contract-based deductive verification of the real Go code: VCs from go/ssa (govc), contracts in //@ comment files, obligations discharged by z3/cvc5, an exact polynomial normaliser (alg), a linear-form interval back end (lin), ground evaluation of table facts and provenance (flow) checks"

var bridgeTrusted = []string{
	"B1-B12 (bridge lemmas): the field-level polynomials proved of addP1p1, doubleP1p1, nielsAdd2*, pnielsAdd*, geSub, p1p1To*, fullToPniels, ProjectiveToExtended, Pack and Unpack* implement the twisted-Edwards group law / encoding; carried as assume-ensures clauses of those functions, not machine-checked",
	"M2, M4: the group axioms used (GADD, GDBL, N0TON, NEGN*) are true of the curve group; instantiated on ground terms by govc",
	"M6: SHA-512 is a function of its input bytes (uninterpreted sha512: Bytes -> 64 bytes)",
}

var props = map[string]*PropSpec{
	"C01": {
		ID: "C01", Cone: []ConeItem{edVerify, geAll, modmAll, curveAll}, Quick: twoLayouts, Thorough: allSix, Technique: techGovc,
		Trusted: append([]string{
			"DoubleScalarmultVartime: its result [s1]P + [s2]B is PROVED from its body (Horner loop invariant over the ghost recursion hv(i-1) = 2 hv(i) + digit_i, table lemmas by case analysis, ground-validated sliding table) relative to two named assumptions: the digit property of ContractSlidingWindow's second phase (digits odd or zero, bounded, weighted sum = scalar) and Horner's rule (the recursion sums to the weighted digit sum)",
			"M3: for p = 5 (mod 8) the candidate root decides squareness (reading of `decodable`)",
		}, bridgeTrusted...),
		Assumptions: []string{"non-nil *Options", "the predicate is stated with [8](([h](-A) + [S]B) - R) = O, the form the code evaluates; its equality with [8]([S]B - [h]A - R) is the abelian group law (M2)"},
	},
	"C05": {
		ID: "C05", Cone: []ConeItem{edVerify, geAll, modmAll, curveAll}, Quick: twoLayouts, Thorough: allSix, Technique: techGovc,
		Trusted: append([]string{"as C01; monotonicity (default accepted => ZIP-215 accepted) and 'differ only on small-order triples' are propositional consequences of the single contract vspec(.., zip) and are not separate obligations"}, bridgeTrusted...),
		Assumptions: []string{"batch side of the property is not covered (VerifyBatch is not under a functional contract)"},
	},
	"C02": {
		ID: "C02", Cone: []ConeItem{edSign, geAll, modmAll, curveAll}, Quick: twoLayouts, Thorough: allSix, Technique: techGovc,
		Trusted: append([]string{"RFC 8032 5.1.5/5.1.6 transcribed as the spec functions sec_a, nonce, hchal (byte-level clamping, SHA-512 inputs in RFC order); encpt(mulB(k)) stands for the encoding of [k]B"}, bridgeTrusted...),
		Assumptions: []string{"in the default (amd64) configuration the assembly table lookup has an assumed contract; the noasm/force32bit configurations verify the Go lookup against the ground-validated table"},
	},
	"C06": {
		ID: "C06", Cone: []ConeItem{edBatch, {Pkg: "internal/ge25519", Funcs: []string{"UnpackNegativeVartime", "CofactorMultiply", "IsNeutralVartime"}}, {Pkg: "internal/modm", Funcs: []string{"Expand", "Mul", "Add"}}}, Quick: twoLayouts, Thorough: allSix, Technique: techGovc,
		Trusted: []string{
			"multiScalarmultVartime and the Bos-Coster heap are NOT verified (trusted contract: memory safety and magnitudes only); therefore the batch equation itself -- that the point tested for neutrality is the randomised combination of the entries -- is not proved, and neither is the probabilistic soundness (a batch passing the equation consists of valid entries except with probability 2^-120; M7), which no deductive verifier can state",
			"what IS proved for every batch length, every chunking and every mixture of entries: (G1) an entry that single verification accepts is never reported false -- equivalently every entry reported false is rejected by single verification; (G2) the summary flag is exactly the conjunction of the entries; the result vector is fresh and has one element per entry; (S1) when a chunk is decided by the batch equation, every entry of it has passed every non-equation acceptance condition of single verification under the same options (lengths, option/hash admissibility, decodability of A and R, small-order rejection unless ZIP-215); entries decided by the fallback or the remainder loop carry exactly single verification's verdict; (H) the challenge hashed for each entry of a chunk is SHA-512(dom2(variant, context) || R || A || M) mod L for the variant and context single verification uses",
		},
		Assumptions: []string{"the clause 'reported true => single verification accepts' for entries of a chunk accepted by the batch equation rests on the two unproved items above; a change that corrupts how the scalars or points handed to multiScalarmultVartime are combined (randomisers, products, negations) without touching the checks, the hash input or the per-entry bookkeeping is therefore NOT detected by this check"},
	},
	"C07": {
		ID: "C07", Cone: []ConeItem{{Pkg: ".", Funcs: []string{"(*Options).unwrap", "checkHash", "(*Options).HashFunc", "verifyWithOptionsNoPanic", "VerifyWithOptions", "verify", "sign", "(PrivateKey).Sign", "Sign"}}}, Quick: twoLayouts, Thorough: allSix, Technique: techGovc,
		Trusted: []string{"M6 and collision resistance of SHA-512 for 'never accepted under a different pair'; what is proved is that the hashed string is dom2(f,c) || R || A || M with the RFC 8032 encoding of (f, len(c), c), the variant/context selection table, and the exact refusal conditions"},
		Assumptions: []string{"VerifyBatch's context error / false entries are not covered (not under contract)"},
	},
	"C08": {
		ID: "C08", Cone: []ConeItem{edNoBatch, xAll, geAll, modmAll, curveAll}, Quick: []string{"default", "force32bit", "noasm", "noasm,appengine", "force32bit,appengine"}, Thorough: allSix, Ground: true,
		Technique: techGovc + "; C08: the contracts of the exported functions are written once (config any) in terms of configuration-independent spec functions; every build configuration's code is verified against them, so any two configurations return the same bytes",
		Trusted: append([]string{
			"observational identity is a corollary: each configuration is proved equal to the same mathematical specification, not compared pairwise",
			"under the default (amd64) configuration the assembly table lookup has an assumed functional contract; the other configurations verify the Go lookup",
		}, bridgeTrusted...),
		Assumptions: []string{"VerifyBatch verdicts are not part of this check (they are C06's; limb128bits, the only limb-width dependent constant there, lives in the unverified multi-scalar routine)", "results that the contracts leave to assumed postconditions (digit property of the sliding-window recoding, rejection direction of decoding, the assembly selector's functional contract) are equal across configurations only under those same assumptions"},
	},
	"C09": {
		ID: "C09", Cone: []ConeItem{{Pkg: ".", Funcs: []string{"isSmallOrderVartime", "verify"}}, geAll, curveAll}, Quick: twoLayouts, Thorough: allSix, Technique: techGovc,
		Trusted: append([]string{"M4: exactly eight points have order dividing 8; IsNeutralVartime's field-level result (x = 0 and y = z) is proved, its reading as 'is the identity' is a bridge"}, bridgeTrusted...),
	},
	"C10": {
		ID: "C10", Cone: []ConeItem{geAll, curveAll, {Pkg: "extra/x25519", Funcs: []string{"EdPublicKeyToX25519", "edwardsToMontgomeryX"}}}, Quick: twoLayouts, Thorough: allSix, Technique: techGovc,
		Trusted: append([]string{"M3; the rejection direction of UnpackNegativeVartime (returns false => no root) is not proved, only: result => v*x^2 = u with the stated parity, y taken mod 2^255, z = 1, t = x*y"}, bridgeTrusted...),
	},
	"C11": {
		ID: "C11", Cone: []ConeItem{xAll, {Pkg: "internal/ge25519", Funcs: []string{"ScalarmultBaseNiels"}}, {Pkg: "internal/modm", Funcs: []string{"ExpandRaw", "ContractWindow4"}}, curveAll}, Quick: twoLayouts, Thorough: allSix, Technique: techGovc,
		Trusted: append([]string{"golang.org/x/crypto/curve25519.ScalarMult = RFC 7748 X25519 (generic path)", "M5: the birational map sends [k]B to X25519(k, 9), so the Edwards fast path agrees with the ladder; ScalarBaseMult's result u([clamp k]B) is an assumed reading of the proved field computation"}, bridgeTrusted...),
	},
	"C12": {
		ID: "C12", Cone: []ConeItem{xAll, {Pkg: ".", Funcs: []string{"NewKeyFromSeed"}}, {Pkg: "internal/ge25519", Funcs: []string{"UnpackVartime", "UnpackNegativeVartime"}}, curveAll}, Quick: twoLayouts, Thorough: allSix, Technique: techGovc,
		Trusted: append([]string{"M5 for the commutation statement: it follows from NewKeyFromSeed's, ScalarBaseMult's and EdPublicKeyToX25519's contracts together with dec(enc Q) = Q; not a separate machine-checked lemma"}, bridgeTrusted...),
	},
	"C13": {
		ID: "C13", Cone: []ConeItem{edAll, xAll, geAll, modmAll, curveAll}, Quick: twoLayouts, Thorough: allSix, Technique: techGovc,
		Trusted: []string{"panics of library functions are modelled (index/slice/nil/explicit panic, subtle.ConstantTimeCopy length check)"},
		Assumptions: []string{"non-nil options; accessors on well-formed keys",
			"VerifyBatch itself is verified (no panic for any inputs incl. nil/short/long entries and any batch length, writes nothing the caller can see, result vector fresh and of the right length) relative to a TRUSTED contract of multiScalarmultVartime (Bos-Coster heap; memory safety and magnitudes assumed, body not verified) and to the element invariants of the scratch heap, which are proved at every write in VerifyBatch"},
	},
	"C15": {
		ID: "C15", Cone: []ConeItem{edAll, xAll, geAll, modmAll, curveAll}, Flow: []string{"globals"}, Quick: twoLayouts, Thorough: allSix,
		Technique: techGovc + "; C15 is decided by frames, not schedules: write-frame obligations (wframe) on every store / copy / callee modifies clause of every function under contract, one global-immutable obligation per package-level variable, freshness of results",
		Trusted: []string{
			"Go memory model: calls that write no memory reachable by another call and read only immutable memory cannot race and are functions of their arguments",
			"standard-library and x/crypto functions called (sha512, subtle, binary, rand, ScalarMult) are goroutine-safe and keep no state between calls",
		},
		Assumptions: []string{
			"a caller overwriting the exported x25519.Basepoint is outside the property (as stated in it)",
			"VerifyBatch is under a safety/frame contract (write-frame obligations apply); the heap routines and multiScalarmultVartime are not verified (trusted contract: they write only the scratch heap they are handed); for them only the global-immutable scan applies",
		},
	},
	"C14": {
		ID: "C14", Cone: []ConeItem{edKeys}, Quick: twoLayouts, Thorough: allSix, Technique: techGovc,
		Trusted: []string{"io.ReadFull fills the buffer from the reader or fails (model); crypto/rand.Reader is non-nil"},
	},
	"C16": {
		ID: "C16", Cone: []ConeItem{geAll, {Pkg: "internal/modm", Funcs: []string{"ContractWindow4", "ContractSlidingWindow"}}, curveAll}, Quick: []string{"default", "force32bit", "noasm"}, Thorough: allSix, Technique: techGovc, Ground: true,
		Trusted: append([]string{
			"fixed-base: proved P3(r) == mulB(s) for every canonical s < 2^255 from the callees' contracts, the 256 ground-validated table facts and ground instances of GADD/GDBL/N0TON; the assembly lookup (amd64) has an assumed contract",
			"double-base: P3(r) == lc2(P, s1, s2) is proved from the body of DoubleScalarmultVartime (loop invariant in Horner form) relative to the ASSUMED digit property of ContractSlidingWindow's second phase and Horner's rule; memory safety, magnitudes and frame are proved",
		}, bridgeTrusted...),
	},
	"C20": {
		ID: "C20", Flow: []string{"ct"}, Quick: []string{"default", "force32bit", "noasm", "noasm,appengine", "force32bit,appengine"}, Thorough: allSix,
		Technique: "contract-based information-flow verification of the real Go code: every function of the signing/key-generation/X25519 base-point cone carries a secrecy clause (ct) in the //@ contract file; govc checks each body against its own clause over go/ssa (no branch, index, division, allocation size or variable-time callee depends on secret data; calls are checked against the callee's clause only) and scans the assembly selector mechanically",
		Trusted: []string{
			"the Go compiler does not introduce secret-dependent branches or table look-ups; integer ALU/SSE instructions have data-independent latency",
			"crypto/sha512, crypto/subtle, math/bits, encoding/binary and golang.org/x/crypto/curve25519.ScalarMult are constant-time in their data",
			"lengths, capacities, addresses and dynamic types are public",
		},
		Assumptions: []string{"memory is abstracted to one secrecy bit per allocation site / parameter (sound over-approximation); x25519.X25519's generic path branches on whether the output is all-zero (a deliberate declassification) and is outside the property's observation points"},
	},
	"C03": {
		ID: "C03", Tags: []string{"verifhooks"}, Cone: []ConeItem{edAll, geAll, modmAll, curveAll}, Quick: twoLayouts, Thorough: allSix, Technique: techGovc + "; C03 itself is a lemma over contracts: the verif-tagged function verifRoundTrip (derive key, sign, verify) is checked against the contracts of NewKeyFromSeed, sign and verify only, with intermediate lemma steps",
		Trusted: append([]string{
			"axioms used by the lemma (contract file): RTDEC (an encoded point decodes to itself, B11), RTMODL/RTNEUT (B has order exactly L, M4), RTSUB/GDBL and one explicit instance of RTLC (arithmetic of multiples of B, M2), RTCLAMP (L does not divide 8a for a clamped scalar: 8a = kL would need 64 | k < 64) and RTCOP (L odd: L | 8x implies L | x)",
			"the excluded case of the property (nonce hash = 0 mod L) is the precondition of verifRoundTrip",
			"batch membership: G1 of VerifyBatch's contract (C06) -- an entry that single verification accepts is reported true at every position of a batch of any size, for every entropy stream that does not fail -- is proved relative to the trusted contract of multiScalarmultVartime (memory safety only); options -> (variant, context) is C07's table",
		}, bridgeTrusted...),
		Assumptions: []string{"everything C01 and C02 assume (their cones are part of this check): bridge lemmas, digit property of the sliding-window recoding, SHA-512 uninterpreted, the assembly selector's functional contract on amd64"},
	},
	"C04": {
		ID:        "C04",
		Cone:      []ConeItem{{Pkg: ".", Funcs: []string{"scMinimal", "verify", "VerifyBatch", "verifyWithOptionsNoPanic"}}, {Pkg: "internal/modm", Funcs: []string{"reduce", "barrettReduce", "Expand", "Contract"}}},
		Quick:     twoLayouts,
		Thorough:  allSix,
		Technique: "contract-based deductive verification: scMinimal's postcondition result == (S < L) over the real code (loop unrolled with a concrete counter), discharged by z3/cvc5; its call sites in verify and VerifyBatch (an entry with S >= L is reported false: part of vspec / G1-G2 bookkeeping) and the scalar parsing modm.Expand/reduce (S is used as the integer it encodes, on both limb layouts) are in the cone",
		Trusted:   []string{"M4 (L is the prime order of B) for the uniqueness reading: two accepted S, S' with equal (key, message, R) satisfy L | 8(S-S'), hence S = S' because both are below L"},
		Assumptions: []string{"uniqueness of the accepted S is a consequence of S < L together with the verification equation (lemma, M4); it is not a separate obligation"},
	},
	"C19": {
		ID:        "C19",
		Cone:      []ConeItem{{Pkg: "internal/modm"}},
		Quick:     twoLayouts,
		Thorough:  []string{"default", "force32bit", "386"},
		Technique: "contract-based deductive verification: VCs over go/ssa of the real functions, discharged by z3/cvc5, an exact polynomial normaliser and a linear-form interval back end",
		Trusted: []string{
			"ContractSlidingWindow: only the bit expansion, memory safety and the frame are proved of the body; the digit property of its second phase (digits odd or zero, |digit| < 2^(w-1), weighted sum = scalar for scalars < 2^253) is an explicit assumption (assume-ensures) for its callers",
			"termination is not proved",
		},
		Assumptions: []string{
			"modm.Mul on the 30-bit layout is specified for x[8] < 2^13 (x < 2^253): q1[8] keeps only 22 of the top 24 bits of x*y, so the function is exact only for x*y < 2^510; every caller in the module passes a reduced first operand (call-site obligations under C02/C06)",
			"ContractWindow4 is specified for scalars below 2^255 (top limb bound), which is what its callers supply",
		},
	},
	"C18": {
		ID:        "C18",
		Cone:      []ConeItem{{Pkg: "internal/curve25519"}},
		Quick:     twoLayouts,
		Thorough:  []string{"default", "force32bit", "386"},
		Technique: "contract-based deductive verification: weakest-precondition style VCs over go/ssa of the real functions, discharged by z3/cvc5 and an exact polynomial normaliser",
		Trusted: []string{
			"M0: exponent laws for x^(2^k) (the sqn unfolding instance (x^(2^k))^2 = x^(2^(k+1))) used for SquareTimes/Recip/PowTwo252m3",
			"termination of SquareTimes is not proved",
		},
		Assumptions: []string{
			"distinct pointer parameters refer to identical or disjoint arrays (one verification per alias pattern listed in the contract; every call site in the module is checked against those patterns)",
			"magnitude classes RED/ADD1/SUB1/U1 are the preconditions; that the group-law code stays inside them is the call-site obligation pre@curve25519.* checked under C16/C10/C09",
		},
	},
}
