package main

// Property -> cone of functions under contract, configurations, trusted base.

type ConeItem struct {
	Pkg   string   // package path suffix
	Funcs []string // contract keys; empty = every contract of the package
}

type PropSpec struct {
	ID          string
	Cone        []ConeItem
	Quick       []string // build configurations verified in the quick tier
	Thorough    []string
	Flow        []string // additional flow/frame engines: "ct", "globals", "fresh"
	Lemmas      []string // named lemmas (contract-file `lemma` declarations) that must be discharged
	Trusted     []string
	Assumptions []string
	Technique   string
}

var allSix = []string{"default", "force32bit", "noasm", "appengine", "force32bit,appengine", "386"}
var twoLayouts = []string{"default", "force32bit"}

var commonTrusted = []string{
	"Go compiler/assembler/runtime; golang.org/x/tools go/ssa v0.29.0 faithfully represents the program",
	"govc itself (symbolic executor, term simplifier, polynomial normaliser) and the SMT solvers z3 4.8.12, z3 5.1.0, cvc5 1.0.3",
	"built-in exact meanings of math/bits.Mul64/Add64 and encoding/binary.LittleEndian.{Uint32,Uint64,PutUint32,PutUint64}",
}

var props = map[string]*PropSpec{
	"C04": {
		ID:        "C04",
		Cone:      []ConeItem{{Pkg: ".", Funcs: []string{"scMinimal"}}},
		Quick:     twoLayouts,
		Thorough:  allSix,
		Technique: "contract-based deductive verification: scMinimal's postcondition result == (S < L) over the real code (loop unrolled with a concrete counter), discharged by z3/cvc5; call sites in verify/VerifyBatch are obligations of C01/C06",
		Trusted:   []string{"M4 (L is the prime order of B) for the uniqueness reading: two accepted S, S' with equal (key, message, R) satisfy L | 8(S-S'), hence S = S' because both are below L"},
		Assumptions: []string{"uniqueness of the accepted S is a consequence of S < L together with the verification equation (lemma, M4); it is not a separate obligation"},
	},
	"C19": {
		ID:        "C19",
		Cone:      []ConeItem{{Pkg: "internal/modm"}},
		Quick:     twoLayouts,
		Thorough:  []string{"default", "force32bit", "386"},
		Technique: "contract-based deductive verification: VCs over go/ssa of the real functions, discharged by z3/cvc5, an exact polynomial normaliser and a linear-form interval back end",
		Trusted: []string{
			"ContractSlidingWindow: only the bit expansion, memory safety and the frame are proved of the body; the digit property of its second phase (digits odd or zero, |digit| < 2^(w-1), weighted sum = scalar for scalars < 2^253) is an explicit assumption (assume-ensures) for its callers",
			"termination is not proved",
		},
		Assumptions: []string{
			"modm.Mul on the 30-bit layout is specified for x[8] < 2^13 (x < 2^253): q1[8] keeps only 22 of the top 24 bits of x*y, so the function is exact only for x*y < 2^510; every caller in the module passes a reduced first operand (call-site obligations under C02/C06)",
			"ContractWindow4 is specified for scalars below 2^255 (top limb bound), which is what its callers supply",
		},
	},
	"C18": {
		ID:        "C18",
		Cone:      []ConeItem{{Pkg: "internal/curve25519"}},
		Quick:     twoLayouts,
		Thorough:  []string{"default", "force32bit", "386"},
		Technique: "contract-based deductive verification: weakest-precondition style VCs over go/ssa of the real functions, discharged by z3/cvc5 and an exact polynomial normaliser",
		Trusted: []string{
			"M0: exponent laws for x^(2^k) (the sqn unfolding instance (x^(2^k))^2 = x^(2^(k+1))) used for SquareTimes/Recip/PowTwo252m3",
			"termination of SquareTimes is not proved",
		},
		Assumptions: []string{
			"distinct pointer parameters refer to identical or disjoint arrays (one verification per alias pattern listed in the contract; every call site in the module is checked against those patterns)",
			"magnitude classes RED/ADD1/SUB1/U1 are the preconditions; that the group-law code stays inside them is the call-site obligation pre@curve25519.* checked under C16/C10/C09",
		},
	},
}
