package main

// Verdict memo. Obligations are regenerated from /repo on every run; what is remembered is only
// that a particular query (assumptions |- goal), identified by a SHA-256 of its full structure up
// to renaming of variables, was proved before, and by which back end. Properties share most of their
// cones, so the same query is generated many times across checks. Only `proved` verdicts are
// stored; a changed function yields different queries and therefore misses. The store lives in
// /verif/.memo (not committed); with GOVC_NOMEMO=1 it is ignored.

import (
	"bufio"
	"crypto/sha256"
	"encoding/hex"
	"fmt"
	"os"
	"path/filepath"
	"sort"
	"strings"
	"sync"
)

type memoStore struct {
	mu   sync.Mutex
	m    map[string]string
	f    *os.File
	hits int
}

var memo *memoStore

func memoOpen(verif string) {
	if os.Getenv("GOVC_NOMEMO") != "" {
		return
	}
	if d := os.Getenv("GOVC_MEMODIR"); d != "" {
		verif = d
	}
	dir := filepath.Join(verif, ".memo")
	if err := os.MkdirAll(dir, 0o755); err != nil {
		return
	}
	path := filepath.Join(dir, "proved.v1.txt")
	ms := &memoStore{m: map[string]string{}}
	if f, err := os.Open(path); err == nil {
		sc := bufio.NewScanner(f)
		for sc.Scan() {
			parts := strings.SplitN(sc.Text(), " ", 2)
			if len(parts) == 2 && len(parts[0]) == 64 {
				ms.m[parts[0]] = parts[1]
			}
		}
		f.Close()
	}
	f, err := os.OpenFile(path, os.O_APPEND|os.O_CREATE|os.O_WRONLY, 0o644)
	if err != nil {
		return
	}
	ms.f = f
	memo = ms
}

func (ms *memoStore) get(key string) (string, bool) {
	ms.mu.Lock()
	defer ms.mu.Unlock()
	v, ok := ms.m[key]
	if ok {
		ms.hits++
	}
	return v, ok
}

func (ms *memoStore) put(key, backend string) {
	ms.mu.Lock()
	defer ms.mu.Unlock()
	if _, ok := ms.m[key]; ok {
		return
	}
	ms.m[key] = backend
	fmt.Fprintf(ms.f, "%s %s\n", key, strings.ReplaceAll(backend, "\n", " "))
}

// ---- canonical key ----

var h1cache sync.Map // term id -> [32]byte : structure hash with variables reduced to their base names

func baseName(n string) string {
	if i := strings.LastIndex(n, "!"); i >= 0 {
		ok := i+1 < len(n)
		for _, c := range n[i+1:] {
			if c < '0' || c > '9' {
				ok = false
			}
		}
		if ok {
			return n[:i]
		}
	}
	return n
}

func commutative(op Op) bool {
	switch op {
	case OAdd, OMul, OAnd, OOr, OEq:
		return true
	}
	return false
}

func h1(t *Term) [32]byte {
	if v, ok := h1cache.Load(t.id); ok {
		return v.([32]byte)
	}
	h := sha256.New()
	fmt.Fprintf(h, "%d|%s|", t.op, t.sort)
	if t.k != nil {
		fmt.Fprintf(h, "k%s|", t.k.String())
	}
	if t.op == OVar {
		fmt.Fprintf(h, "v%s|", baseName(t.name))
	} else if t.name != "" {
		fmt.Fprintf(h, "n%s|", t.name)
	}
	cs := make([][32]byte, len(t.args))
	for i, a := range t.args {
		cs[i] = h1(a)
	}
	if commutative(t.op) {
		sort.Slice(cs, func(i, j int) bool { return string(cs[i][:]) < string(cs[j][:]) })
	}
	for _, c := range cs {
		h.Write(c[:])
	}
	var out [32]byte
	copy(out[:], h.Sum(nil))
	h1cache.Store(t.id, out)
	return out
}

type keyCtx struct {
	vars map[int]int
	h2   map[int][32]byte
}

func (kc *keyCtx) hash(t *Term) [32]byte {
	if v, ok := kc.h2[t.id]; ok {
		return v
	}
	h := sha256.New()
	fmt.Fprintf(h, "%d|%s|", t.op, t.sort)
	if t.k != nil {
		fmt.Fprintf(h, "k%s|", t.k.String())
	}
	if t.op == OVar {
		n, ok := kc.vars[t.id]
		if !ok {
			n = len(kc.vars)
			kc.vars[t.id] = n
		}
		fmt.Fprintf(h, "v%s#%d|", baseName(t.name), n)
	} else if t.name != "" {
		fmt.Fprintf(h, "n%s|", t.name)
	}
	args := t.args
	if commutative(t.op) && len(args) > 1 {
		args = append([]*Term(nil), args...)
		sort.SliceStable(args, func(i, j int) bool {
			a, b := h1(args[i]), h1(args[j])
			return string(a[:]) < string(b[:])
		})
	}
	for _, a := range args {
		c := kc.hash(a)
		h.Write(c[:])
	}
	var out [32]byte
	copy(out[:], h.Sum(nil))
	kc.h2[t.id] = out
	return out
}

// obligationKey: SHA-256 of the whole query (assumptions in order, goal, axioms and axiom
// schemes in use) up to consistent renaming of the variables.
func obligationKey(o *Obligation) string {
	kc := &keyCtx{vars: map[int]int{}, h2: map[int][32]byte{}}
	h := sha256.New()
	fmt.Fprintf(h, "govc-memo-v1|%d|", len(o.Facts))
	// the goal first: its variables get the lowest numbers, independent of how many facts precede it
	if o.Goal != nil {
		g := kc.hash(o.Goal)
		h.Write(g[:])
	} else {
		h.Write([]byte("cover"))
	}
	for _, f := range o.Facts {
		c := kc.hash(f)
		h.Write(c[:])
	}
	for _, a := range o.Axioms {
		fmt.Fprintf(h, "|ax:%s", a)
	}
	var us []string
	for u, on := range o.Uses {
		if on {
			us = append(us, u)
		}
	}
	sort.Strings(us)
	fmt.Fprintf(h, "|uses:%s|alg:%v", strings.Join(us, ","), o.Alg)
	return hex.EncodeToString(h.Sum(nil))
}
