package main

// `lin` back end for range obligations over carry chains.
//
// To prove A <= B (or A < B) it rewrites E = B - A into a linear form with
// rational coefficients over independent atoms and bounds it by interval
// arithmetic. Div/Mod by powers of two are eliminated exactly through bit
// fields: for a base term x with break points 0=b0<b1<...<bn,
//
//     Mod(x, 2^bj) = sum_{i<j} F_i * 2^bi,     F_i = bits [b_i, b_{i+1}) of x,  0 <= F_i < 2^(b_{i+1}-b_i)
//     Div(x, 2^bj) = (x - Mod(x, 2^bj)) / 2^bj
//
// which are identities of floor division. Bounds of the remaining atoms come
// only from the obligation's own assumptions (facts of the form atom <= c).

import (
	"fmt"
	"math/big"
	"os"
	"sort"
)

type ratLin struct {
	c    *big.Rat
	coef map[int]*big.Rat
	atom map[int]*Term
}

func newRatLin() *ratLin {
	return &ratLin{c: new(big.Rat), coef: map[int]*big.Rat{}, atom: map[int]*Term{}}
}

func (l *ratLin) add(o *ratLin, k *big.Rat) {
	l.c.Add(l.c, new(big.Rat).Mul(o.c, k))
	for id, c := range o.coef {
		l.addAtom(o.atom[id], new(big.Rat).Mul(c, k))
	}
}

func (l *ratLin) addAtom(a *Term, k *big.Rat) {
	if k.Sign() == 0 {
		return
	}
	if old, ok := l.coef[a.id]; ok {
		n := new(big.Rat).Add(old, k)
		if n.Sign() == 0 {
			delete(l.coef, a.id)
			delete(l.atom, a.id)
		} else {
			l.coef[a.id] = n
		}
		return
	}
	l.coef[a.id] = new(big.Rat).Set(k)
	l.atom[a.id] = a
}

type linIntervalCtx struct {
	bps    map[int][]int // base term id -> sorted break points (bit positions)
	memo   map[int]*ratLin
	bounds *Bounds
	small  map[int]Ival
	smallMode bool
	err    error
}

// window writes a chain of Div/Mod by powers of two as  t = floor(x / 2^off) mod 2^lim
// (lim < 0: no modulus). ok is false if t is not such a chain.
func window(t *Term) (x *Term, off, lim int, ok bool) {
	if t.op != ODiv && t.op != OMod {
		return t, 0, -1, false
	}
	e, p2 := log2Exact(t.k)
	if !p2 {
		return t, 0, -1, false
	}
	ix, ioff, ilim, _ := window(t.args[0])
	if t.op == ODiv {
		if ilim >= 0 {
			nl := ilim - e
			if nl < 0 {
				nl = 0
			}
			return ix, ioff + e, nl, true
		}
		return ix, ioff + e, -1, true
	}
	// Mod
	if ilim >= 0 && ilim < e {
		return ix, ioff, ilim, true
	}
	return ix, ioff, e, true
}

func (li *linIntervalCtx) collect(t *Term, seen map[int]bool) {
	if seen[t.id] {
		return
	}
	seen[t.id] = true
	if x, off, lim, ok := window(t); ok {
		li.bps[x.id] = append(li.bps[x.id], off)
		if lim >= 0 {
			li.bps[x.id] = append(li.bps[x.id], off+lim)
		}
	}
	for _, a := range t.args {
		li.collect(a, seen)
	}
}

func (li *linIntervalCtx) field(x *Term, from, width int) *Term {
	return UF("fld$", SInt, x, ConstI(int64(from)), ConstI(int64(width)))
}

// fieldsLin: sum of the bit fields of x in [from, to), scaled so that bit `from` has weight 2^(from-scaleOff).
func (li *linIntervalCtx) fieldsLin(x *Term, from, to, scaleOff int) *ratLin {
	r := newRatLin()
	if to <= from {
		return r
	}
	prev := from
	for _, b := range li.bps[x.id] {
		if b <= from {
			continue
		}
		if b > to {
			break
		}
		if b == prev {
			continue
		}
		var w *big.Rat
		if prev >= scaleOff {
			w = new(big.Rat).SetInt(pow2(prev - scaleOff))
		} else {
			w = new(big.Rat).SetFrac(bi(1), pow2(scaleOff-prev))
		}
		r.addAtom(li.field(x, prev, b-prev), w)
		prev = b
	}
	if prev != to {
		li.err = fmt.Errorf("internal: missing break point")
	}
	return r
}

func (li *linIntervalCtx) lin(t *Term) *ratLin {
	if r, ok := li.memo[t.id]; ok {
		return r
	}
	r := newRatLin()
	switch t.op {
	case OConst:
		r.c.SetInt(t.k)
	case OAdd:
		for _, a := range t.args {
			r.add(li.lin(a), big.NewRat(1, 1))
		}
	case OMul:
		if len(t.args) == 1 {
			r.add(li.lin(t.args[0]), new(big.Rat).SetInt(t.k))
		} else {
			r.addAtom(t, big.NewRat(1, 1))
		}
	case OMod, ODiv:
		// small quotients/remainders (carries) are better kept as atoms with their interval
		if iv := li.bounds.Interval(t); li.smallMode && iv.lo != nil && iv.hi != nil && new(big.Int).Sub(iv.hi, iv.lo).Cmp(bi(3)) <= 0 {
			li.small[t.id] = iv
			r.addAtom(t, big.NewRat(1, 1))
			break
		}
		if x, off, lim, ok := window(t); ok {
			if lim >= 0 {
				r = li.fieldsLin(x, off, off+lim, off)
			} else {
				// floor(x / 2^off) = (x - bits[0,off)) / 2^off
				r.add(li.lin(x), big.NewRat(1, 1))
				r.add(li.fieldsLin(x, 0, off, 0), big.NewRat(-1, 1))
				s := newRatLin()
				s.add(r, new(big.Rat).SetFrac(bi(1), pow2(off)))
				r = s
			}
		} else if t.op == OMod {
			r.addAtom(t, big.NewRat(1, 1))
		} else {
			m := Mod(t.args[0], t.k)
			r.add(li.lin(t.args[0]), big.NewRat(1, 1))
			r.addAtom(m, big.NewRat(-1, 1))
			s := newRatLin()
			s.add(r, new(big.Rat).SetFrac(bi(1), t.k))
			r = s
		}
	default:
		r.addAtom(t, big.NewRat(1, 1))
	}
	li.memo[t.id] = r
	return r
}

func (li *linIntervalCtx) atomBounds(a *Term) (lo, hi *big.Int) {
	if a.op == OUF && a.name == "fld$" {
		w, _ := a.args[2].ConstInt()
		from, _ := a.args[1].ConstInt()
		hi = new(big.Int).Sub(pow2(int(w)), bi(1))
		// a non-negative base bounded above bounds its high fields
		if iv := li.bounds.Interval(a.args[0]); iv.lo != nil && iv.lo.Sign() >= 0 && iv.hi != nil {
			if h := floorDiv(iv.hi, pow2(int(from))); h.Cmp(hi) < 0 {
				hi = h
			}
		}
		return bi(0), hi
	}
	if iv, ok := li.small[a.id]; ok {
		return iv.lo, iv.hi
	}
	if a.op == OMod {
		return bi(0), new(big.Int).Sub(a.k, bi(1))
	}
	iv := li.bounds.m[a.id]
	lo, hi = iv.lo, iv.hi
	if a.op == OMul || a.op == OIte || a.op == OAdd {
		iv2 := li.bounds.Interval(a)
		lo, hi = maxB(lo, iv2.lo), minB(hi, iv2.hi)
	}
	return
}

// LinIntervalProve decides goals of the form A <= B, A < B and conjunctions thereof.
func LinIntervalProve(facts []*Term, goal *Term) (bool, string) {
	ok, why := linIntervalProve(facts, goal, false)
	if !ok {
		if ok2, why2 := linIntervalProve(facts, goal, true); ok2 {
			return true, why2 + " (carries kept as atoms)"
		}
	}
	return ok, why
}

func linIntervalProve(facts []*Term, goal *Term, smallMode bool) (bool, string) {
	switch goal.op {
	case OAnd:
		for _, g := range goal.args {
			if ok, why := LinIntervalProve(facts, g); !ok {
				return false, why
			}
		}
		return true, "all conjuncts bounded"
	case OLe, OLt:
	default:
		return false, "not an inequality"
	}
	b := NewBounds()
	for _, f := range flattenFacts(facts) {
		b.Learn(f)
	}
	li := &linIntervalCtx{bps: map[int][]int{}, memo: map[int]*ratLin{}, bounds: b, small: map[int]Ival{}, smallMode: smallMode}
	e := Sub(goal.args[1], goal.args[0])
	li.collect(e, map[int]bool{})
	for id, bp := range li.bps {
		sort.Ints(bp)
		li.bps[id] = bp
	}
	l := li.lin(e)
	if li.err != nil {
		return false, li.err.Error()
	}
	lo := new(big.Rat).Set(l.c)
	for id, c := range l.coef {
		alo, ahi := li.atomBounds(l.atom[id])
		var bnd *big.Int
		if c.Sign() > 0 {
			bnd = alo
		} else {
			bnd = ahi
		}
		if bnd == nil {
			return false, fmt.Sprintf("atom %s is unbounded in the needed direction", l.atom[id].str(3))
		}
		lo.Add(lo, new(big.Rat).Mul(c, new(big.Rat).SetInt(bnd)))
	}
	if goal.op == OLe && lo.Sign() >= 0 || goal.op == OLt && lo.Sign() > 0 {
		return true, fmt.Sprintf("linear form over %d independent atoms has lower bound %s", len(l.coef), lo.FloatString(0))
	}
	if os.Getenv("GOVC_DEBUG") != "" {
		var ids []int
		for id := range l.coef {
			ids = append(ids, id)
		}
		sort.Ints(ids)
		fmt.Fprintf(os.Stderr, "lin: const %s\n", l.c.FloatString(0))
		for _, id := range ids {
			alo, ahi := li.atomBounds(l.atom[id])
			fmt.Fprintf(os.Stderr, "lin:   %s * %s  in [%v,%v]\n", l.coef[id].FloatString(3), l.atom[id].str(3), alo, ahi)
		}
	}
	return false, fmt.Sprintf("lower bound %s of the linear form (%d atoms) is not enough", lo.FloatString(0), len(l.coef))
}
