package main

// Models of library functions and API-level values: strings, interfaces,
// SHA-512 digest objects, entropy readers, errors.

import (
	"fmt"
	"go/types"
	"strings"

	"golang.org/x/tools/go/ssa"
)

const SBytes Sort = "Bytes"

func init() {
	TS.sorts["Bytes"] = true
}

func bnil() *Term { return UF("bnil", SBytes) }

func bcat(a, b *Term) *Term {
	if a.op == OUF && a.name == "bnil" {
		return b
	}
	if b.op == OUF && b.name == "bnil" {
		return a
	}
	// right-nested canonical form
	if a.op == OUF && a.name == "bcat" {
		return bcat(a.args[0], bcat(a.args[1], b))
	}
	return UF("bcat", SBytes, a, b)
}

// bytesTerm gives the abstract byte sequence denoted by a slice, array value or string.
func (en *Engine) bytesTerm(st *State, mem map[*Region]Cell, v Value) Value {
	switch x := v.(type) {
	case StringV:
		if x.Const != nil {
			return en.constBytes([]byte(*x.Const))
		}
		return UF("bsub", SBytes, x.Arr, ConstI(0), x.Len)
	case SliceV:
		if x.R == nil {
			return bnil()
		}
		saved := st.mem
		st.mem = mem
		defer func() { st.mem = saved }()
		c, _ := en.loadPath(st, en.regionCell(st, x.R), x.Path, x.R.typ)
		switch cc := c.(type) {
		case *SymArrCell:
			return UF("bsub", SBytes, cc.Arr, x.Off, x.Len)
		case *ArrCell:
			off, ok1 := x.Off.ConstInt()
			n, ok2 := x.Len.ConstInt()
			if !ok1 || !ok2 {
				// symbolic window into a concrete array: the array as an array term
				if len(cc.Elems) > 4096 {
					fail("bytesOf: symbolic window into a large concrete array")
				}
				arr := FreshVar("bytes.arr", SArr)
				for i, e := range cc.Elems {
					t, ok := e.(*Term)
					if !ok {
						fail("bytesOf: non-scalar element")
					}
					arr = Store(arr, ConstI(int64(i)), t)
				}
				return UF("bsub", SBytes, arr, x.Off, x.Len)
			}
			var elems []*Term
			for i := off; i < off+n; i++ {
				t, ok := cc.Elems[i].(*Term)
				if !ok {
					fail("bytesOf: non-scalar element")
				}
				elems = append(elems, t)
			}
			return en.elemsBytes(elems)
		}
		fail("bytesOf: unsupported backing store %T", c)
	case AggV:
		ac, ok := x.C.(*ArrCell)
		if !ok {
			fail("bytesOf: unsupported aggregate")
		}
		var elems []*Term
		for _, e := range ac.Elems {
			elems = append(elems, e.(*Term))
		}
		return en.elemsBytes(elems)
	case PtrV:
		saved := st.mem
		st.mem = mem
		defer func() { st.mem = saved }()
		return en.bytesTerm(st, mem, en.load(st, x, nil))
	}
	fail("bytesOf: unsupported value %T", v)
	return nil
}

func (en *Engine) constBytes(b []byte) *Term {
	if len(b) == 0 {
		return bnil()
	}
	return UF(fmt.Sprintf("bconst_%x", b), SBytes)
}

func (en *Engine) elemsBytes(elems []*Term) *Term {
	if len(elems) == 0 {
		return bnil()
	}
	allConst := true
	for _, e := range elems {
		if e.op != OConst {
			allConst = false
		}
	}
	if allConst {
		b := make([]byte, len(elems))
		for i, e := range elems {
			b[i] = byte(e.k.Int64())
		}
		return en.constBytes(b)
	}
	// consecutive selects of one array
	if elems[0].op == OSelect {
		arr := elems[0].args[0]
		base := elems[0].args[1]
		ok := true
		for i, e := range elems {
			if e.op != OSelect || e.args[0] != arr || !Eq(e.args[1], Add(base, ConstI(int64(i)))).IsTrue() {
				ok = false
				break
			}
		}
		if ok {
			return UF("bsub", SBytes, arr, base, ConstI(int64(len(elems))))
		}
	}
	r := bnil()
	for i := len(elems) - 1; i >= 0; i-- {
		r = UF("bcons", SBytes, elems[i], r)
	}
	return r
}

// ---------- parameters of API types ----------

func (en *Engine) makeParamAPI(st *State, name string, t types.Type, facts *[]*Term) Value {
	switch u := t.Underlying().(type) {
	case *types.Basic:
		if u.Kind() == types.String {
			return freshString(name, facts)
		}
	case *types.Interface:
		return freshIface(name, facts, false)
	case *types.Slice:
		return en.makeSliceOfSlices(st, name, t, u, facts)
	}
	fail("unsupported parameter type %s for %s", t, name)
	return nil
}

func freshString(name string, facts *[]*Term) StringV {
	l := FreshVar(name+".len", SInt)
	*facts = append(*facts, Le(ConstI(0), l), Le(l, Const(pow2(wordBits-2))))
	return StringV{Arr: FreshVar(name+".str", SArr), Len: l}
}

func freshIface(name string, facts *[]*Term, nonNil bool) IfaceV {
	s := FreshVar(name+".iface", SInt)
	lo := int64(0)
	if nonNil {
		lo = 1
	}
	*facts = append(*facts, Le(ConstI(lo), s))
	return IfaceV{Sym: s}
}

// ---------- type assertions on symbolic interfaces ----------

func (en *Engine) symTypeAssert(st *State, f *Frame, x *ssa.TypeAssert, iv IfaceV) []*State {
	if _, isIface := x.AssertedType.Underlying().(*types.Interface); isIface {
		fail("assertion of a symbolic interface to an interface type")
	}
	pos := posOf(en, x.Pos())
	// success branch
	en.flushSide(st)
	other := st.clone()
	var facts []*Term
	val := en.freshOfType(st, x.AssertedType, f.fn.Name()+".dyn", &facts)
	for _, fc := range facts {
		st.assume(fc)
	}
	st.assume(Le(ConstI(1), iv.Sym))
	tag := UF("dyntype$"+sanitize(x.AssertedType.String()), SBool, iv.Sym)
	st.assume(tag)
	refined := IfaceV{Dyn: x.AssertedType, V: val, Sym: iv.Sym}
	f.env[x.X] = refined
	st.ifaceRefined[iv.Sym.id] = refined
	other.ifaceDenied[iv.Sym.id] = true
	st.trace = append(st.trace, pos+": dynamic type is "+x.AssertedType.String())
	if x.CommaOk {
		f.env[x] = TupleV{val, True()}
	} else {
		f.env[x] = val
	}
	// failure branch
	of := other.top()
	other.assume(Not(tag))
	other.trace = append(other.trace, pos+": dynamic type is not "+x.AssertedType.String())
	if x.CommaOk {
		of.env[x] = TupleV{zeroValue(x.AssertedType), False()}
	} else {
		other.done, other.panicked = true, true
		other.panicMsg = "failed type assertion at " + pos
	}
	return []*State{other}
}

// freshOfType creates an arbitrary value of type t (pointers point to fresh regions).
func (en *Engine) freshOfType(st *State, t types.Type, name string, facts *[]*Term) Value {
	switch u := t.Underlying().(type) {
	case *types.Pointer:
		r := en.newRegion(name, u.Elem(), "param")
		st.mem[r] = en.freshCellAPI(u.Elem(), name, facts)
		return PtrV{R: r}
	case *types.Slice:
		if _, isB := u.Elem().Underlying().(*types.Basic); isB {
			r := en.newRegion(name, t, "param")
			ln := FreshVar(name+".len", SInt)
			cp := FreshVar(name+".cap", SInt)
			*facts = append(*facts, Le(ConstI(0), ln), Le(ln, cp), Le(cp, Const(pow2(wordBits-2))))
			st.mem[r] = &SymArrCell{Arr: FreshVar(name+".arr", SArr), N: cp, Elem: u.Elem()}
			return SliceV{R: r, Off: ConstI(0), Len: ln, Cap: cp, Elem: u.Elem()}
		}
	case *types.Basic:
		if u.Kind() == types.String {
			return freshString(name, facts)
		}
		return freshScalar(t, name, facts)
	case *types.Interface:
		return freshIface(name, facts, false)
	}
	fail("cannot create an arbitrary value of type %s", t)
	return nil
}

func (en *Engine) freshCellAPI(t types.Type, prefix string, facts *[]*Term) Cell {
	return freshCell(t, prefix, facts)
}

// ---------- interface method calls ----------

func (en *Engine) execInvoke(st *State, f *Frame, x *ssa.Call, recv Value, m *types.Func, args []Value, pos string) []*State {
	iv, ok := recv.(IfaceV)
	if !ok {
		fail("invoke on %T at %s", recv, pos)
	}
	if h, ok := iv.V.(HashV); ok {
		return en.hashMethod(st, f, x, h, m.Name(), args, pos)
	}
	if iv.Dyn != nil {
		fn := en.prog.LookupMethod(iv.Dyn, m.Pkg(), m.Name())
		if fn == nil {
			fail("no method %s on %s", m.Name(), iv.Dyn)
		}
		return en.callFunction(st, f, x, fn, nil, append([]Value{iv.V}, args...), pos)
	}
	if iv.Sym == nil {
		en.require(st, "nil", False(), "method call on nil interface", pos)
		st.done, st.infeasible = true, true
		return nil
	}
	// unknown dynamic type: the method is an arbitrary function of the receiver
	en.require(st, "nil", Le(ConstI(1), iv.Sym), "method call on a possibly nil interface value", pos)
	sig := m.Type().(*types.Signature)
	switch sig.Results().Len() {
	case 0:
		f.env[x] = nil
	case 1:
		rt := sig.Results().At(0).Type()
		if lo, hi, ok := typeRange(rt); ok {
			v := UF("method$"+m.Name(), SInt, iv.Sym)
			if !st.typed[v.id] {
				st.typed[v.id] = true
				st.assume(Le(Const(lo), v))
				st.assume(Le(v, Const(hi)))
			}
			f.env[x] = v
		} else {
			f.env[x] = en.freshValue(st, rt, "method."+m.Name())
		}
	default:
		// several results (e.g. io.Reader.Read): all arbitrary; slice arguments may be overwritten
		var tv TupleV
		for i := 0; i < sig.Results().Len(); i++ {
			tv = append(tv, en.freshValue(st, sig.Results().At(i).Type(), fmt.Sprintf("method.%s.%d", m.Name(), i)))
		}
		if m.Name() == "Read" && len(args) == 1 {
			// io.Reader contract: 0 <= n <= len(p)
			if s, ok := args[0].(SliceV); ok {
				if n, ok := tv[0].(*Term); ok {
					st.assume(Le(ConstI(0), n))
					st.assume(Le(n, en.sliceLen(s)))
				}
				st.entropyReads = append(st.entropyReads, en.sliceLen(s))
			}
		}
		f.env[x] = tv
	}
	// an unknown method may write through any slice or pointer it is handed
	for _, a := range args {
		switch v := a.(type) {
		case SliceV:
			if v.R != nil {
				en.checkWrite(st, v.R, v.Path, v.Off, v.Len, pos)
				en.havocSlice(st, v)
			}
		case PtrV:
			if v.R != nil {
				en.checkWrite(st, v.R, v.Path, nil, nil, pos)
				var facts []*Term
				t := v.R.typ
				c, et := en.loadPath(st, en.regionCell(st, v.R), v.Path, t)
				_ = c
				st.mem[v.R] = en.storePath(st, en.regionCell(st, v.R), v.Path, v.R.typ, freshCell(et, v.R.name+".m", &facts))
				for _, fc := range facts {
					st.assume(fc)
				}
			}
		}
	}
	en.externCalls[fmt.Sprintf("%s: dynamic call %s on caller-supplied interface (arbitrary results; may overwrite the slices/pointers it is given)", en.curFunc, m.Name())] = true
	return nil
}

// initMemTouch registers a region reachable only through package variables as initialiser memory.
func (en *Engine) initMemTouch(r *Region) {
	if en.initMem == nil {
		en.initMem = map[*Region]Cell{}
	}
	if _, ok := en.initMem[r]; !ok {
		en.initMem[r] = nil
	}
}

func (en *Engine) hashState(st *State, h HashV) *Term {
	c := st.mem[h.Cell]
	if c == nil {
		// a hash object created by a package initialiser (shared state): its contents are whatever
		// earlier calls left there
		if ic, ok := en.initMem[h.Cell]; ok && ic != nil {
			c = ic
		} else {
			c = FreshVar("hash.state", SBytes)
		}
		st.mem[h.Cell] = c
	}
	t, ok := c.(*Term)
	if !ok {
		fail("hash state of unexpected shape %T", c)
	}
	return t
}

func (en *Engine) hashMethod(st *State, f *Frame, x *ssa.Call, h HashV, name string, args []Value, pos string) []*State {
	if name == "Write" || name == "Reset" {
		// the hash object is memory like any other: writing to one that existed before the call
		// (a package-level hash object) must be allowed by the modifies clause
		if h.Cell != nil {
			if _, fromInit := en.initMem[h.Cell]; fromInit || st.mem[h.Cell] == nil {
				en.initMemTouch(h.Cell)
				en.checkWrite(st, h.Cell, nil, nil, nil, pos)
			}
		}
	}
	switch name {
	case "Write":
		b := en.bytesTerm(st, st.mem, args[0]).(*Term)
		st.mem[h.Cell] = bcat(en.hashState(st, h), b)
		ln := ConstI(0)
		if s, ok := args[0].(SliceV); ok && s.R != nil {
			ln = s.Len
		}
		f.env[x] = TupleV{ln, IfaceV{}}
	case "Reset":
		st.mem[h.Cell] = bnil()
		f.env[x] = nil
	case "Sum":
		d := UF("sha512", SArr, en.hashState(st, h))
		dst, ok := args[0].(SliceV)
		if !ok {
			fail("Sum argument %T", args[0])
		}
		var out SliceV
		if dst.R == nil {
			out = en.makeSlice(st, f.fn.Name()+".digest", types.Typ[types.Uint8], ConstI(64), ConstI(64))
		} else {
			room := Le(Add(dst.Len, ConstI(64)), dst.Cap)
			if !(room.IsTrue() || en.intervalHolds(st, room)) {
				fail("hash.Sum into a slice whose spare capacity is not known to hold 64 bytes at %s", pos)
			}
			out = SliceV{R: dst.R, Path: dst.Path, Off: dst.Off, Len: Add(dst.Len, ConstI(64)), Cap: dst.Cap, Elem: dst.Elem}
		}
		base := Sub(out.Len, ConstI(64))
		for i := int64(0); i < 64; i++ {
			b := Select(d, ConstI(i))
			if !st.typed[b.id] {
				st.typed[b.id] = true
				st.assume(Le(ConstI(0), b))
				st.assume(Le(b, ConstI(255)))
			}
			p := en.sliceElemPtr(out, Add(base, ConstI(i)))
			en.noteWrite(st, p, pos)
			en.store(st, p, b)
		}
		f.env[x] = out
	case "Size":
		f.env[x] = ConstI(64)
	case "BlockSize":
		f.env[x] = ConstI(128)
	default:
		fail("unsupported hash method %s", name)
	}
	return nil
}

// ---------- library intrinsics ----------

func (en *Engine) contentEq(st *State, a, b SliceV) *Term {
	if a.R == nil || b.R == nil {
		la, lb := en.sliceLen(a), en.sliceLen(b)
		return Eq(la, lb)
	}
	lenEq := Eq(a.Len, b.Len)
	if n, ok := a.Len.ConstInt(); ok && n <= 128 {
		cs := []*Term{lenEq}
		for i := int64(0); i < n; i++ {
			x := en.load(st, en.sliceElemPtr(a, ConstI(i)), a.Elem).(*Term)
			// b's length may differ; element reads are only meaningful under lenEq
			if m, ok := b.Len.ConstInt(); ok && i >= m {
				return False()
			}
			y := en.load(st, en.sliceElemPtr(b, ConstI(i)), b.Elem).(*Term)
			cs = append(cs, Eq(x, y))
		}
		return And(cs...)
	}
	if n, ok := b.Len.ConstInt(); ok && n <= 128 {
		return en.contentEq(st, b, a)
	}
	ba := en.bytesTerm(st, st.mem, a).(*Term)
	bb := en.bytesTerm(st, st.mem, b).(*Term)
	return And(lenEq, Eq(ba, bb))
}

func (en *Engine) intrinsicAPI(st *State, f *Frame, x *ssa.Call, fn *ssa.Function, name string, args []Value, pos string) ([]*State, bool) {
	switch name {
	case "crypto/sha512.New":
		r := en.newRegion("sha512.digest", types.Typ[types.Int], "heap")
		st.mem[r] = bnil()
		f.env[x] = IfaceV{Dyn: fn.Signature.Results().At(0).Type(), V: HashV{Cell: r}}
		return nil, true
	case "errors.New", "fmt.Errorf":
		en.regionSeq++
		f.env[x] = IfaceV{Dyn: types.Universe.Lookup("error").Type(), V: OpaqueV{What: "error value"}, Sym: ConstI(int64(1000000 + en.regionSeq))}
		return nil, true
	case "strconv.Itoa":
		f.env[x] = OpaqueV{What: "string"}
		return nil, true
	case "bytes.Equal":
		f.env[x] = en.contentEq(st, args[0].(SliceV), args[1].(SliceV))
		en.externCalls["bytes.Equal (variable time)"] = true
		return nil, true
	case "crypto/subtle.ConstantTimeCompare":
		f.env[x] = Ite(en.contentEq(st, args[0].(SliceV), args[1].(SliceV)), ConstI(1), ConstI(0))
		return nil, true
	case "crypto/subtle.ConstantTimeCopy":
		v := args[0].(*Term)
		dst, src := args[1].(SliceV), args[2].(SliceV)
		en.require(st, "panic", Eq(en.sliceLen(dst), en.sliceLen(src)), "subtle.ConstantTimeCopy: slices have equal length", pos)
		en.require(st, "pre@subtle.ConstantTimeCopy", Or(Eq(v, ConstI(0)), Eq(v, ConstI(1))), "subtle.ConstantTimeCopy: v is 0 or 1 (behaviour undefined otherwise)", pos)
		n, ok := dst.Len.ConstInt()
		if !ok {
			fail("ConstantTimeCopy with symbolic length")
		}
		vals := make([]*Term, n)
		for i := int64(0); i < n; i++ {
			o := en.load(st, en.sliceElemPtr(dst, ConstI(i)), dst.Elem).(*Term)
			s := en.load(st, en.sliceElemPtr(src, ConstI(i)), src.Elem).(*Term)
			vals[i] = Ite(Eq(v, ConstI(1)), s, o)
		}
		for i := int64(0); i < n; i++ {
			p := en.sliceElemPtr(dst, ConstI(i))
			en.noteWrite(st, p, pos)
			en.store(st, p, vals[i])
		}
		f.env[x] = nil
		return nil, true
	case "io.ReadFull":
		return en.readFull(st, f, x, args, pos), true
	case "golang.org/x/crypto/curve25519.ScalarMult":
		dst, in, base := args[0].(PtrV), args[1].(PtrV), args[2].(PtrV)
		le := func(p PtrV) *Term {
			a := en.load(st, p, nil).(AggV).C.(*ArrCell)
			var ts []*Term
			for i, e := range a.Elems {
				ts = append(ts, MulC(e.(*Term), pow2(8*i)))
			}
			return Add(append(ts, ConstI(0))...)
		}
		res := UF("x25519", SInt, le(in), le(base))
		if !st.typed[res.id] {
			st.typed[res.id] = true
			st.assume(Le(ConstI(0), res))
			st.assume(Lt(res, Const(pow2(256))))
		}
		var es []Cell
		var sum []*Term
		for i := 0; i < 32; i++ {
			var facts []*Term
			b := freshScalar(types.Typ[types.Uint8], "x25519.out", &facts).(*Term)
			for _, fc := range facts {
				st.assume(fc)
			}
			es = append(es, b)
			sum = append(sum, MulC(b, pow2(8*i)))
		}
		st.assume(Eq(Add(append(sum, ConstI(0))...), res))
		en.noteWrite(st, dst, pos)
		en.store(st, dst, AggV{C: &ArrCell{es}})
		f.env[x] = nil
		en.externCalls["golang.org/x/crypto/curve25519.ScalarMult (assumed = RFC 7748 X25519, writes only dst)"] = true
		return nil, true
	}
	if strings.HasPrefix(name, "crypto/sha512.") || strings.HasPrefix(name, "fmt.") {
		fail("unmodelled library call %s at %s", name, pos)
	}
	return nil, false
}

// readFull models io.ReadFull(r, buf): either the buffer is filled with arbitrary bytes, or an error is returned.
func (en *Engine) readFull(st *State, f *Frame, x *ssa.Call, args []Value, pos string) []*State {
	r, ok := args[0].(IfaceV)
	if !ok {
		fail("io.ReadFull reader is %T", args[0])
	}
	buf := args[1].(SliceV)
	if r.Sym == nil && r.Dyn == nil {
		en.require(st, "nil", False(), "io.ReadFull on nil reader", pos)
		st.done, st.infeasible = true, true
		return nil
	}
	if r.Sym != nil && r.Dyn == nil {
		en.require(st, "nil", Le(ConstI(1), r.Sym), "io.ReadFull on a possibly nil reader", pos)
	}
	en.flushSide(st)
	st.entropyReads = append(st.entropyReads, en.sliceLen(buf))
	errSt := st.clone()
	// success: buffer filled
	if buf.R != nil {
		en.checkWrite(st, buf.R, buf.Path, buf.Off, buf.Len, pos)
		en.havocSlice(st, buf)
	}
	f.env[x] = TupleV{en.sliceLen(buf), IfaceV{}}
	// failure: error returned (buffer contents arbitrary as well)
	ef := errSt.top()
	if buf.R != nil {
		en.havocSlice(errSt, buf)
	}
	en.regionSeq++
	n := FreshVar("readfull.n", SInt)
	errSt.assume(Le(ConstI(0), n))
	errSt.assume(Lt(n, en.sliceLen(buf)))
	ef.env[x] = TupleV{n, IfaceV{Dyn: types.Universe.Lookup("error").Type(), V: OpaqueV{What: "reader error"}, Sym: ConstI(int64(1000000 + en.regionSeq))}}
	errSt.trace = append(errSt.trace, pos+": entropy source fails")
	en.externCalls["io.ReadFull on the caller's reader (modelled: fills the buffer with arbitrary bytes or fails)"] = true
	return []*State{errSt}
}

// slices of slices (VerifyBatch parameters) are modelled lazily: element i is a slice over
// its own symbolic array arr(i) with length len(i).
type LazySlices struct {
	Name string
	Elem types.Type // element type of the inner slices
	regs map[int]*Region
}

// lazyElem: element idx of a slice of byte slices: a slice of length len(idx) over its own
// array arr(idx); len and arr are uninterpreted functions of the index, so equal indices denote
// equal contents. The element memory belongs to the caller (it existed before the call).
func (en *Engine) lazyElem(st *State, ls *LazySlices, idx *Term) Value {
	if ls.regs == nil {
		ls.regs = map[int]*Region{}
	}
	ln := UF(ls.Name+".elen", SInt, idx)
	if !st.typed[ln.id] && st.quantDepth == 0 {
		st.typed[ln.id] = true
		st.assume(Le(ConstI(0), ln))
		st.assume(Le(ln, Const(pow2(wordBits-2))))
	}
	r, ok := ls.regs[idx.id]
	if !ok {
		r = en.newRegion(ls.Name+".elem", types.NewSlice(ls.Elem), "param-elem")
		ls.regs[idx.id] = r
	}
	if _, ok := st.mem[r]; !ok {
		st.mem[r] = &SymArrCell{Arr: UF(ls.Name+".earr", SArr, idx), N: ln, Elem: ls.Elem}
	}
	return SliceV{R: r, Off: ConstI(0), Len: ln, Cap: ln, Elem: ls.Elem}
}

func (en *Engine) makeSliceOfSlices(st *State, name string, t types.Type, u *types.Slice, facts *[]*Term) Value {
	inner, ok := u.Elem().Underlying().(*types.Slice)
	if !ok {
		fail("unsupported slice element type %s", u.Elem())
	}
	if _, isB := inner.Elem().Underlying().(*types.Basic); !isB {
		fail("unsupported nested slice type %s", t)
	}
	r := en.newRegion(name, t, "param")
	ln := Var(name+".len", SInt)
	cp := Var(name+".cap", SInt)
	*facts = append(*facts, Le(ConstI(0), ln), Le(ln, cp), Le(cp, Const(pow2(wordBits-2))))
	st.mem[r] = &LazySlices{Name: name, Elem: inner.Elem()}
	return SliceV{R: r, Off: ConstI(0), Len: ln, Cap: cp, Elem: u.Elem()}
}
