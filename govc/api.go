package main

// Models of library functions and API-level values (hash objects, readers,
// interfaces). Filled in incrementally.

import (
	"go/types"

	"golang.org/x/tools/go/ssa"
)

func (en *Engine) intrinsicAPI(st *State, f *Frame, x *ssa.Call, fn *ssa.Function, name string, args []Value, pos string) ([]*State, bool) {
	return nil, false
}

func (en *Engine) execInvoke(st *State, f *Frame, x *ssa.Call, recv Value, m *types.Func, args []Value, pos string) []*State {
	fail("interface method call %s unsupported at %s", m.Name(), pos)
	return nil
}

func (en *Engine) symTypeAssert(st *State, f *Frame, x *ssa.TypeAssert, iv IfaceV) []*State {
	fail("type assertion on symbolic interface unsupported")
	return nil
}

func (en *Engine) bytesTerm(st *State, mem map[*Region]Cell, v Value) Value {
	fail("bytesOf unsupported")
	return nil
}

func (en *Engine) makeParamAPI(st *State, name string, t types.Type, facts *[]*Term) Value {
	fail("unsupported parameter type %s for %s", t, name)
	return nil
}
