package main

// Evaluation of //@ specification expressions (Go expression syntax) to terms.

import (
	"fmt"
	"go/ast"
	"go/token"
	"go/types"
	"math/big"
	"strconv"
	"strings"
)

type specCtx struct {
	en     *Engine
	pc     *PkgContracts
	fc     *FuncContract
	st     *State                // current state (for loads)
	oldMem map[*Region]Cell      // memory at function entry (for old())
	oldEnv map[string]Value      // parameter values at entry
	env    map[string]Value      // name -> value (params, bound vars, result, locals)
	locals func(name string) (Value, bool)
	inOld  bool
	depth  int
}

func (sc *specCtx) child() *specCtx {
	n := *sc
	n.env = map[string]Value{}
	for k, v := range sc.env {
		n.env[k] = v
	}
	return &n
}

func (sc *specCtx) errorf(e ast.Expr, format string, a ...interface{}) {
	fail("spec %s: %s", sc.exprString(e), fmt.Sprintf(format, a...))
}

func (sc *specCtx) exprString(e ast.Expr) string {
	return types.ExprString(e)
}

func (sc *specCtx) mem() map[*Region]Cell {
	if sc.inOld && sc.oldMem != nil {
		return sc.oldMem
	}
	return sc.st.mem
}

// load through a pointer in the (current or old) memory
func (sc *specCtx) loadPtr(p PtrV) Value {
	if p.R == nil {
		fail("spec: dereference of nil pointer")
	}
	saved := sc.st.mem
	sc.st.mem = sc.mem()
	c := sc.en.regionCell(sc.st, p.R)
	cell, t := sc.en.loadPath(sc.st, c, p.Path, p.R.typ)
	sc.st.mem = saved
	return cellToValue(cell, t)
}

func (sc *specCtx) evalTerm(e ast.Expr) *Term {
	v := sc.eval(e)
	t, ok := v.(*Term)
	if !ok {
		sc.errorf(e, "expected scalar, got %T", v)
	}
	return t
}

func (sc *specCtx) evalBool(e ast.Expr) *Term {
	t := sc.evalTerm(e)
	if t.sort != SBool {
		sc.errorf(e, "expected boolean")
	}
	return t
}

func (sc *specCtx) lookupConst(name string) (Value, bool) {
	for _, pc := range sc.pcs() {
		if c, ok := pc.Consts[name]; ok {
			s2 := sc.child()
			s2.pc = pc
			return s2.eval(c.Expr), true
		}
	}
	return nil, false
}

// pcs lists the contract files visible from this one (own package first, then all others).
func (sc *specCtx) pcs() []*PkgContracts {
	r := []*PkgContracts{sc.pc}
	for _, p := range sc.en.contractOrder() {
		if p != sc.pc {
			r = append(r, p)
		}
	}
	return r
}

func (sc *specCtx) eval(e ast.Expr) Value {
	sc.depth++
	if sc.depth > 200 {
		fail("spec evaluation too deep")
	}
	defer func() { sc.depth-- }()
	switch x := e.(type) {
	case *ast.ParenExpr:
		return sc.eval(x.X)
	case *ast.BasicLit:
		switch x.Kind {
		case token.INT:
			v, ok := new(big.Int).SetString(strings.ReplaceAll(x.Value, "_", ""), 0)
			if !ok {
				sc.errorf(e, "bad integer literal")
			}
			return Const(v)
		case token.STRING:
			s, _ := strconv.Unquote(x.Value)
			return StringV{Const: &s}
		}
		sc.errorf(e, "unsupported literal")
	case *ast.Ident:
		switch x.Name {
		case "true":
			return True()
		case "false":
			return False()
		case "nil":
			return NilV{}
		}
		if sc.inOld && sc.oldEnv != nil {
			if v, ok := sc.oldEnv[x.Name]; ok {
				return v
			}
		}
		if v, ok := sc.env[x.Name]; ok {
			return v
		}
		if sc.locals != nil {
			if v, ok := sc.locals(x.Name); ok {
				return v
			}
		}
		if v, ok := sc.lookupConst(x.Name); ok {
			return v
		}
		if v, ok := sc.en.goConst(sc.pc.Pkg, x.Name); ok {
			return v
		}
		// a package-level variable: aggregates by address, others by value
		if gv := sc.en.lookupGlobal(sc.pc.Pkg, x.Name); gv != nil {
			r := sc.en.globalRegion(gv)
			if isAggType(r.typ) {
				return PtrV{R: r}
			}
			return sc.en.load(sc.st, PtrV{R: r}, r.typ)
		}
		sc.errorf(e, "unknown identifier %s", x.Name)
	case *ast.StarExpr:
		v := sc.eval(x.X)
		p, ok := v.(PtrV)
		if !ok {
			sc.errorf(e, "dereference of %T", v)
		}
		return sc.loadPtr(p)
	case *ast.UnaryExpr:
		switch x.Op {
		case token.SUB:
			return Neg(sc.evalTerm(x.X))
		case token.NOT:
			return Not(sc.evalBool(x.X))
		case token.AND:
			// address-of: only &x.f / &x[i] on pointers
			return sc.addrOf(x.X)
		}
		sc.errorf(e, "unsupported unary operator")
	case *ast.BinaryExpr:
		return sc.evalBinary(x)
	case *ast.IndexExpr:
		base := sc.eval(x.X)
		idx := sc.evalTerm(x.Index)
		return sc.index(e, base, idx)
	case *ast.SliceExpr:
		base := sc.eval(x.X)
		lo := ConstI(0)
		if x.Low != nil {
			lo = sc.evalTerm(x.Low)
		}
		switch b := base.(type) {
		case SliceV:
			hi := b.Len
			if x.High != nil {
				hi = sc.evalTerm(x.High)
			}
			return SliceV{R: b.R, Path: b.Path, Off: Add(b.Off, lo), Len: Sub(hi, lo), Cap: Sub(b.Cap, lo), Elem: b.Elem}
		case PtrV:
			at, ok := sc.ptrElemType(b).Underlying().(*types.Array)
			if !ok {
				sc.errorf(e, "slice of pointer to non-array")
			}
			hi := ConstI(at.Len())
			if x.High != nil {
				hi = sc.evalTerm(x.High)
			}
			return SliceV{R: b.R, Path: b.Path, Off: lo, Len: Sub(hi, lo), Cap: Sub(ConstI(at.Len()), lo), Elem: at.Elem()}
		case AggV:
			// slice of an array value: keep as a window on the cell
			ac, ok := b.C.(*ArrCell)
			if !ok {
				sc.errorf(e, "slice of non-array value")
			}
			l, ok1 := lo.ConstInt()
			h := int64(len(ac.Elems))
			if x.High != nil {
				hv, ok2 := sc.evalTerm(x.High).ConstInt()
				if !ok2 {
					sc.errorf(e, "symbolic bound on array value slice")
				}
				h = hv
			}
			if !ok1 {
				sc.errorf(e, "symbolic bound on array value slice")
			}
			at := b.T.Underlying().(*types.Array)
			return AggV{T: types.NewArray(at.Elem(), h-l), C: &ArrCell{ac.Elems[l:h]}}
		}
		sc.errorf(e, "slice of %T", base)
	case *ast.SelectorExpr:
		base := sc.eval(x.X)
		return sc.selectField(e, base, x.Sel.Name)
	case *ast.CallExpr:
		return sc.evalCall(x)
	}
	sc.errorf(e, "unsupported expression form %T", e)
	return nil
}

func (sc *specCtx) ptrElemType(p PtrV) types.Type {
	t := p.R.typ
	for _, pe := range p.Path {
		switch u := t.Underlying().(type) {
		case *types.Struct:
			t = u.Field(pe.Field).Type()
		case *types.Array:
			t = u.Elem()
		case *types.Slice:
			t = u.Elem()
		}
	}
	return t
}

func (sc *specCtx) addrOf(e ast.Expr) Value {
	switch x := e.(type) {
	case *ast.SelectorExpr:
		base := sc.eval(x.X)
		p, ok := base.(PtrV)
		if !ok {
			sc.errorf(e, "address of field of non-pointer")
		}
		st, ok := sc.ptrElemType(p).Underlying().(*types.Struct)
		if !ok {
			sc.errorf(e, "field of non-struct")
		}
		for i := 0; i < st.NumFields(); i++ {
			if st.Field(i).Name() == x.Sel.Name {
				return PtrV{R: p.R, Path: appendPath(p.Path, PathEl{Field: i})}
			}
		}
		sc.errorf(e, "no field %s", x.Sel.Name)
	case *ast.IndexExpr:
		base := sc.eval(x.X)
		idx := sc.evalTerm(x.Index)
		switch b := base.(type) {
		case PtrV:
			return PtrV{R: b.R, Path: appendPath(b.Path, PathEl{Idx: idx})}
		case SliceV:
			return sc.en.sliceElemPtr(b, idx)
		}
	case *ast.StarExpr:
		return sc.eval(x.X)
	}
	sc.errorf(e, "unsupported address-of")
	return nil
}

func (sc *specCtx) selectField(e ast.Expr, base Value, name string) Value {
	switch b := base.(type) {
	case PtrV:
		st, ok := sc.ptrElemType(b).Underlying().(*types.Struct)
		if !ok {
			sc.errorf(e, "field of pointer to non-struct")
		}
		for i := 0; i < st.NumFields(); i++ {
			if st.Field(i).Name() == name {
				return sc.loadPtr(PtrV{R: b.R, Path: appendPath(b.Path, PathEl{Field: i})})
			}
		}
	case AggV:
		st, ok := b.T.Underlying().(*types.Struct)
		if !ok {
			sc.errorf(e, "field of non-struct value")
		}
		for i := 0; i < st.NumFields(); i++ {
			if st.Field(i).Name() == name {
				return cellToValue(b.C.(*StructCell).Fields[i], st.Field(i).Type())
			}
		}
	}
	sc.errorf(e, "cannot select field %s of %T", name, base)
	return nil
}

func (sc *specCtx) index(e ast.Expr, base Value, idx *Term) Value {
	switch b := base.(type) {
	case AggV:
		at, ok := b.T.Underlying().(*types.Array)
		if !ok {
			sc.errorf(e, "index of non-array value")
		}
		return cellToValue(sc.en.indexCell(sc.st, b.C, idx, at.Elem()), at.Elem())
	case PtrV:
		// pointer to array: auto-deref
		return sc.loadPtr(PtrV{R: b.R, Path: appendPath(b.Path, PathEl{Idx: idx})})
	case SliceV:
		if b.R == nil {
			sc.errorf(e, "index of nil slice")
		}
		return sc.loadPtr(sc.en.sliceElemPtr(b, idx))
	}
	sc.errorf(e, "cannot index %T", base)
	return nil
}

func (sc *specCtx) valuesEqual(e ast.Expr, a, b Value) *Term {
	switch x := a.(type) {
	case *Term:
		y, ok := b.(*Term)
		if !ok {
			sc.errorf(e, "comparing scalar with %T", b)
		}
		return Eq(x, y)
	case AggV:
		y, ok := b.(AggV)
		if !ok {
			sc.errorf(e, "comparing aggregate with %T", b)
		}
		return cellsEqualTerm(x.C, y.C)
	case PtrV:
		switch y := b.(type) {
		case PtrV:
			return sc.en.ptrCompare(sc.st, x, y)
		case NilV:
			return BoolT(x.R == nil)
		}
	case NilV:
		switch y := b.(type) {
		case PtrV:
			return BoolT(y.R == nil)
		case SliceV:
			return BoolT(y.R == nil)
		case IfaceV:
			return sc.en.ifaceEq(IfaceV{}, y)
		case NilV:
			return True()
		}
	case SliceV:
		if _, ok := b.(NilV); ok {
			return BoolT(x.R == nil)
		}
	case IfaceV:
		if _, ok := b.(NilV); ok {
			return sc.en.ifaceEq(x, IfaceV{})
		}
	}
	sc.errorf(e, "unsupported equality between %T and %T", a, b)
	return nil
}

func cellsEqualTerm(a, b Cell) *Term {
	switch x := a.(type) {
	case *ArrCell:
		y, ok := b.(*ArrCell)
		if !ok || len(x.Elems) != len(y.Elems) {
			fail("spec: comparing arrays of different shape")
		}
		var cs []*Term
		for i := range x.Elems {
			cs = append(cs, cellsEqualTerm(x.Elems[i], y.Elems[i]))
		}
		return And(cs...)
	case *StructCell:
		y := b.(*StructCell)
		var cs []*Term
		for i := range x.Fields {
			cs = append(cs, cellsEqualTerm(x.Fields[i], y.Fields[i]))
		}
		return And(cs...)
	case *SymArrCell:
		y, ok := b.(*SymArrCell)
		if !ok {
			fail("spec: comparing symbolic array with %T", b)
		}
		return Eq(x.Arr, y.Arr)
	case *Term:
		y, ok := b.(*Term)
		if !ok {
			fail("spec: comparing scalar cell with %T", b)
		}
		return Eq(x, y)
	}
	fail("spec: cannot compare cells %T", a)
	return nil
}

func (sc *specCtx) evalBinary(x *ast.BinaryExpr) Value {
	switch x.Op {
	case token.LAND:
		return And(sc.evalBool(x.X), sc.evalBool(x.Y))
	case token.LOR:
		return Or(sc.evalBool(x.X), sc.evalBool(x.Y))
	case token.EQL:
		return sc.valuesEqual(x, sc.eval(x.X), sc.eval(x.Y))
	case token.NEQ:
		return Not(sc.valuesEqual(x, sc.eval(x.X), sc.eval(x.Y)))
	}
	a, b := sc.evalTerm(x.X), sc.evalTerm(x.Y)
	switch x.Op {
	case token.ADD:
		return Add(a, b)
	case token.SUB:
		return Sub(a, b)
	case token.MUL:
		return Mul(a, b)
	case token.QUO:
		return DivT(a, b)
	case token.REM:
		return ModT(a, b)
	case token.SHL:
		k, ok := b.ConstInt()
		if !ok {
			sc.errorf(x, "shift by non-constant in spec")
		}
		return MulC(a, pow2(int(k)))
	case token.SHR:
		k, ok := b.ConstInt()
		if !ok {
			sc.errorf(x, "shift by non-constant in spec")
		}
		return Div(a, pow2(int(k)))
	case token.LSS:
		return Lt(a, b)
	case token.LEQ:
		return Le(a, b)
	case token.GTR:
		return Gt(a, b)
	case token.GEQ:
		return Ge(a, b)
	}
	sc.errorf(x, "unsupported binary operator %s", x.Op)
	return nil
}

func (sc *specCtx) findSpec(name string) (*SpecFn, *PkgContracts) {
	for _, pc := range sc.pcs() {
		if s, ok := pc.Specs[name]; ok {
			return s, pc
		}
	}
	return nil, nil
}

func (sc *specCtx) findClass(name string) ([]SpecExpr, *PkgContracts) {
	for _, pc := range sc.pcs() {
		if c, ok := pc.Classes[name]; ok {
			return c, pc
		}
	}
	return nil, nil
}

func (sc *specCtx) findUFun(name string) (UFDecl, bool) {
	for _, pc := range sc.pcs() {
		if d, ok := pc.UFuns[name]; ok {
			return d, true
		}
	}
	return UFDecl{}, false
}

// elems returns the scalar elements of an array-like value.
func (sc *specCtx) elems(e ast.Expr, v Value) []*Term {
	switch a := v.(type) {
	case AggV:
		ac, ok := a.C.(*ArrCell)
		if !ok {
			sc.errorf(e, "expected array value")
		}
		r := make([]*Term, len(ac.Elems))
		for i, c := range ac.Elems {
			t, ok := c.(*Term)
			if !ok {
				sc.errorf(e, "array of non-scalars")
			}
			r[i] = t
		}
		return r
	case SliceV:
		n, ok := a.Len.ConstInt()
		if !ok {
			sc.errorf(e, "slice of symbolic length where a fixed number of elements is needed")
		}
		r := make([]*Term, n)
		for i := range r {
			t, ok := sc.loadPtr(sc.en.sliceElemPtr(a, ConstI(int64(i)))).(*Term)
			if !ok {
				sc.errorf(e, "slice of non-scalars")
			}
			r[i] = t
		}
		return r
	case PtrV:
		return sc.elems(e, sc.loadPtr(a))
	}
	sc.errorf(e, "expected array or slice, got %T", v)
	return nil
}

func (sc *specCtx) evalCall(x *ast.CallExpr) Value {
	name := ""
	if id, ok := x.Fun.(*ast.Ident); ok {
		name = id.Name
	} else {
		sc.errorf(x, "unsupported call target")
	}
	switch name {
	case "old":
		n := sc.child()
		n.inOld = true
		return n.eval(x.Args[0])
	case "implies":
		prem := sc.evalBool(x.Args[0])
		if prem.IsFalse() {
			return True()
		}
		// a consequence that is not well defined in this state (e.g. bytes of a nil result) is an
		// arbitrary boolean: the implication then holds only if the premise is refuted
		var cons *Term
		func() {
			defer func() {
				if r := recover(); r != nil {
					if prem.IsTrue() {
						panic(r)
					}
					cons = FreshVar("undefined", SBool)
				}
			}()
			cons = sc.evalBool(x.Args[1])
		}()
		return Imp(prem, cons)
	case "iff":
		return Eq(sc.evalBool(x.Args[0]), sc.evalBool(x.Args[1]))
	case "ite":
		c := sc.evalBool(x.Args[0])
		a, b := sc.eval(x.Args[1]), sc.eval(x.Args[2])
		at, ok1 := a.(*Term)
		bt, ok2 := b.(*Term)
		if !ok1 || !ok2 {
			sc.errorf(x, "ite on non-scalars")
		}
		// a condition that is (the negation of) a fact of the current path selects its branch
		if sc.st != nil && sc.st.quantDepth == 0 && !c.IsTrue() && !c.IsFalse() {
			nc := Not(c)
			for i := len(sc.st.facts) - 1; i >= 0 && i >= len(sc.st.facts)-400; i-- {
				if sc.st.facts[i] == c {
					return at
				}
				if sc.st.facts[i] == nc {
					return bt
				}
			}
		}
		return Ite(c, at, bt)
	case "len":
		switch v := sc.eval(x.Args[0]).(type) {
		case SliceV:
			if v.R == nil {
				return ConstI(0)
			}
			return v.Len
		case AggV:
			if at, ok := v.T.Underlying().(*types.Array); ok {
				return ConstI(at.Len())
			}
		case StringV:
			if v.Const != nil {
				return ConstI(int64(len(*v.Const)))
			}
			return v.Len
		}
		sc.errorf(x, "len of unsupported value")
	case "cap":
		if v, ok := sc.eval(x.Args[0]).(SliceV); ok {
			if v.R == nil {
				return ConstI(0)
			}
			return v.Cap
		}
		sc.errorf(x, "cap of unsupported value")
	case "forall", "forallq":
		// forall(i, lo, hi, body): lo <= i < hi
		id, ok := x.Args[0].(*ast.Ident)
		if !ok || len(x.Args) != 4 {
			sc.errorf(x, "forall(i, lo, hi, body)")
		}
		lo, hi := sc.evalTerm(x.Args[1]), sc.evalTerm(x.Args[2])
		l, ok1 := lo.ConstInt()
		h, ok2 := hi.ConstInt()
		if ok1 && ok2 && h-l <= 512 && name != "forallq" {
			var cs []*Term
			for k := l; k < h; k++ {
				n := sc.child()
				n.env[id.Name] = ConstI(k)
				cs = append(cs, n.evalBool(x.Args[3]))
			}
			return And(cs...)
		}
		bv := FreshVar(id.Name, SInt)
		n := sc.child()
		n.env[id.Name] = bv
		sc.st.quantDepth++ // no state-level facts about terms mentioning the bound variable
		mark := len(sc.st.facts)
		body := n.evalBool(x.Args[3])
		sc.st.quantDepth--
		// typing facts the models added while evaluating the body (byte ranges of hash outputs,
		// lengths >= 0, ...) that mention the bound variable must not escape the quantifier
		if len(sc.st.facts) > mark {
			leaked := append([]*Term(nil), sc.st.facts[mark:]...)
			sc.st.facts = sc.st.facts[:mark]
			mm := map[int]bool{}
			for _, lf := range leaked {
				if mentions(lf, bv, mm) {
					// dropped: a typing fact about a term that only exists under the quantifier
					continue
				} else {
					sc.st.facts = append(sc.st.facts, lf)
				}
			}
		}
		return Forall(bv, Imp(And(Le(lo, bv), Lt(bv, hi)), body))
	case "all":
		// all(x, body): unbounded integer quantifier (axioms)
		id, ok := x.Args[0].(*ast.Ident)
		if !ok || len(x.Args) != 2 {
			sc.errorf(x, "all(x, body)")
		}
		bv := FreshVar(id.Name, SInt)
		n := sc.child()
		n.env[id.Name] = bv
		return Forall(bv, n.evalBool(x.Args[1]))
	case "allS":
		// allS(x, Sort, body): quantifier over an uninterpreted sort
		id, ok := x.Args[0].(*ast.Ident)
		sid, ok2 := x.Args[1].(*ast.Ident)
		if !ok || !ok2 || len(x.Args) != 3 {
			sc.errorf(x, "allS(x, Sort, body)")
		}
		bv := FreshVar(id.Name, sortOf(sid.Name))
		n := sc.child()
		n.env[id.Name] = bv
		return Forall(bv, n.evalBool(x.Args[2]))
	case "sum":
		// sum(i, lo, hi, body) with constant bounds
		id, ok := x.Args[0].(*ast.Ident)
		if !ok || len(x.Args) != 4 {
			sc.errorf(x, "sum(i, lo, hi, body)")
		}
		l, ok1 := sc.evalTerm(x.Args[1]).ConstInt()
		h, ok2 := sc.evalTerm(x.Args[2]).ConstInt()
		if !ok1 || !ok2 {
			sc.errorf(x, "sum needs constant bounds")
		}
		var ts []*Term
		for k := l; k < h; k++ {
			n := sc.child()
			n.env[id.Name] = ConstI(k)
			ts = append(ts, n.evalTerm(x.Args[3]))
		}
		return Add(append(ts, ConstI(0))...)
	case "cong":
		a, b, m := sc.evalTerm(x.Args[0]), sc.evalTerm(x.Args[1]), sc.evalTerm(x.Args[2])
		if m.op != OConst || m.k.Sign() <= 0 {
			sc.errorf(x, "cong modulus must be a positive constant")
		}
		return Eq(Mod(Sub(a, b), m.k), ConstI(0))
	case "feq":
		// feq(a, b, m): a mod m == b mod m
		a, b, m := sc.evalTerm(x.Args[0]), sc.evalTerm(x.Args[1]), sc.evalTerm(x.Args[2])
		if m.op != OConst || m.k.Sign() <= 0 {
			sc.errorf(x, "feq modulus must be a positive constant")
		}
		return Eq(Mod(a, m.k), Mod(b, m.k))
	case "mag":
		v := sc.eval(x.Args[0])
		cid, ok := x.Args[1].(*ast.Ident)
		if !ok {
			sc.errorf(x, "mag(x, CLASS)")
		}
		cls, cpc := sc.findClass(cid.Name)
		if cls == nil {
			sc.errorf(x, "unknown class %s", cid.Name)
		}
		es := sc.elems(x, v)
		if len(es) != len(cls) {
			sc.errorf(x, "class %s has %d limbs, value has %d", cid.Name, len(cls), len(es))
		}
		var cs []*Term
		for i, el := range es {
			n := sc.child()
			n.pc = cpc
			cs = append(cs, Le(ConstI(0), el), Le(el, n.evalTerm(cls[i].Expr)))
		}
		return And(cs...)
	case "le":
		// le(s): little-endian value of all elements of s (bytes or wider words given by optional 2nd arg bits)
		es := sc.elems(x, sc.eval(x.Args[0]))
		bits := int64(8)
		if len(x.Args) > 1 {
			bits, _ = sc.evalTerm(x.Args[1]).ConstInt()
		}
		var ts []*Term
		for i, el := range es {
			ts = append(ts, MulC(el, pow2(int(bits)*i)))
		}
		return Add(append(ts, ConstI(0))...)
	case "pow2":
		k, ok := sc.evalTerm(x.Args[0]).ConstInt()
		if !ok {
			sc.errorf(x, "pow2 of non-constant")
		}
		return Const(pow2(int(k)))
	case "pow":
		b := sc.evalTerm(x.Args[0])
		ex := sc.evalTerm(x.Args[1])
		if ex.op != OConst || ex.k.Sign() < 0 {
			sc.errorf(x, "pow exponent must be a non-negative constant")
		}
		return Pow(b, ex.k)
	case "sqn":
		// sqn(x, k, m): a representative of x^(2^k) modulo m
		b := sc.evalTerm(x.Args[0])
		k := sc.evalTerm(x.Args[1])
		m := sc.evalTerm(x.Args[2])
		if m.op != OConst {
			sc.errorf(x, "sqn modulus must be constant")
		}
		return sc.sqn(b, k, m.k, true)
	case "bytesOf":
		return sc.bytesOf(x, sc.eval(x.Args[0]))
	case "bnil":
		return bnil()
	case "bcat":
		r := bnil()
		for i := len(x.Args) - 1; i >= 0; i-- {
			r = bcat(sc.evalTerm(x.Args[i]), r)
		}
		return r
	case "bconst":
		sv, ok := sc.eval(x.Args[0]).(StringV)
		if !ok || sv.Const == nil {
			sc.errorf(x, "bconst of a non-constant")
		}
		return sc.en.constBytes([]byte(*sv.Const))
	case "bcons":
		return UF("bcons", SBytes, sc.evalTerm(x.Args[0]), sc.evalTerm(x.Args[1]))
	case "sha512":
		return UF("sha512", SArr, sc.evalTerm(x.Args[0]))
	case "barr":
		// barr(arr, off, n): the byte sequence arr[off : off+n] of an array term
		return UF("bsub", SBytes, sc.evalTerm(x.Args[0]), sc.evalTerm(x.Args[1]), sc.evalTerm(x.Args[2]))
	case "sel":
		b := Select(sc.evalTerm(x.Args[0]), sc.evalTerm(x.Args[1]))
		if b.op == OSelect && !sc.st.typed[b.id] {
			sc.st.typed[b.id] = true
			sc.st.assume(Le(ConstI(0), b))
			sc.st.assume(Le(b, ConstI(255)))
		}
		return b
	case "lea":
		// lea(arr, off, n): little-endian value of n bytes of an array term starting at off
		arr := sc.evalTerm(x.Args[0])
		off := sc.evalTerm(x.Args[1])
		n, ok := sc.evalTerm(x.Args[2]).ConstInt()
		if !ok {
			sc.errorf(x, "lea needs a constant length")
		}
		var ts []*Term
		for i := int64(0); i < n; i++ {
			b := Select(arr, Add(off, ConstI(i)))
			if b.op == OSelect && !sc.st.typed[b.id] {
				sc.st.typed[b.id] = true
				sc.st.assume(Le(ConstI(0), b))
				sc.st.assume(Le(b, ConstI(255)))
			}
			ts = append(ts, MulC(b, pow2(int(8*i))))
		}
		return Add(append(ts, ConstI(0))...)
	case "unwrap":
		iv, ok := sc.eval(x.Args[0]).(IfaceV)
		if !ok {
			sc.errorf(x, "unwrap of a non-interface")
		}
		return iv.V
	case "istype", "astype":
		iv, ok := sc.eval(x.Args[0]).(IfaceV)
		if !ok || iv.Sym == nil {
			sc.errorf(x, "%s needs a symbolic interface value", name)
		}
		ref, isRef := sc.st.ifaceRefined[iv.Sym.id]
		if name == "istype" {
			if isRef {
				return True()
			}
			if sc.st.ifaceDenied[iv.Sym.id] {
				return False()
			}
			sc.errorf(x, "the dynamic type of this interface was never tested on this path")
		}
		if isRef {
			return ref.V
		}
		return SliceV{}
	case "entropyReads":
		return ConstI(int64(len(sc.st.entropyReads)))
	case "entropyRead":
		k, ok := sc.evalTerm(x.Args[0]).ConstInt()
		if !ok || int(k) >= len(sc.st.entropyReads) {
			sc.errorf(x, "no such entropy read")
		}
		return sc.st.entropyReads[k]
	case "fresh":
		return sc.freshPred(x, sc.eval(x.Args[0]))
	case "bycases":
		// bycases(e, lo, hi, G): G is proved by case analysis on the value of e in [lo, hi):
		// the obligation is  lo <= e < hi  and, for each j,  e == j ==> G[e := j];
		// what is assumed afterwards is G itself (it follows from the cases).
		if len(x.Args) != 4 {
			sc.errorf(x, "bycases(e, lo, hi, G)")
		}
		e := sc.evalTerm(x.Args[0])
		lo, ok1 := sc.evalTerm(x.Args[1]).ConstInt()
		hi, ok2 := sc.evalTerm(x.Args[2]).ConstInt()
		if !ok1 || !ok2 || hi-lo > 256 {
			sc.errorf(x, "bycases needs small constant bounds")
		}
		g := sc.evalBool(x.Args[3])
		cs := []*Term{Le(ConstI(lo), e), Lt(e, ConstI(hi))}
		for j := lo; j < hi; j++ {
			gj := substitute(g, map[int]*Term{e.id: ConstI(j)}, map[int]*Term{})
			cs = append(cs, Imp(Eq(e, ConstI(j)), gj))
		}
		sc.st.caseConcl = append(sc.st.caseConcl, g)
		return And(cs...)
	case "sameslice":
		// sameslice(a, b): the two slices start at the same element of the same array
		a, ok1 := sc.eval(x.Args[0]).(SliceV)
		b, ok2 := sc.eval(x.Args[1]).(SliceV)
		if !ok1 || !ok2 {
			sc.errorf(x, "sameslice of non-slices")
		}
		if a.R == nil || b.R == nil || a.R != b.R {
			return False()
		}
		if _, c := pathPrefixEq(a.Path, b.Path); !c || len(a.Path) != len(b.Path) {
			return False()
		}
		return Eq(a.Off, b.Off)
	case "dyntype":
		v, ok := sc.eval(x.Args[0]).(IfaceV)
		if !ok {
			sc.errorf(x, "dyntype of non-interface")
		}
		_ = v
		sc.errorf(x, "dyntype unsupported here")
	}
	if sf, spc := sc.findSpec(name); sf != nil {
		if len(x.Args) != len(sf.Params) {
			sc.errorf(x, "spec function %s takes %d arguments", name, len(sf.Params))
		}
		n := sc.child()
		n.pc = spc
		n.env = map[string]Value{}
		for i, p := range sf.Params {
			n.env[p] = sc.eval(x.Args[i])
		}
		// bound variables of enclosing quantifiers stay visible through env copy of callers only via args
		n.inOld = false
		n.locals = nil
		return n.eval(sf.Body.Expr)
	}
	if d, ok := sc.findUFun(name); ok {
		if len(x.Args) != len(d.Args) {
			sc.errorf(x, "ufun %s takes %d arguments", name, len(d.Args))
		}
		args := make([]*Term, len(x.Args))
		for i, a := range x.Args {
			args[i] = sc.evalTerm(a)
			if args[i].sort != d.Args[i] {
				sc.errorf(x, "argument %d of %s has sort %s, want %s", i, name, args[i].sort, d.Args[i])
			}
		}
		TS.mu.Lock()
		TS.ufs[name] = d
		TS.mu.Unlock()
		return UF(name, d.Res, args...)
	}
	sc.errorf(x, "unknown spec function %s", name)
	return nil
}

// bytesOf yields the abstract byte-sequence term (sort Bytes) of a slice or array value.
func (sc *specCtx) bytesOf(e ast.Expr, v Value) Value {
	return sc.en.bytesTerm(sc.st, sc.mem(), v)
}

// fresh(x): x is backed by memory allocated during this call (decided by provenance: the region is a
// heap object that did not exist at function entry), hence aliases nothing the caller holds.
func (sc *specCtx) freshPred(e ast.Expr, v Value) Value {
	var r *Region
	switch x := v.(type) {
	case SliceV:
		r = x.R
	case PtrV:
		r = x.R
	case IfaceV:
		return sc.freshPred(e, x.V)
	}
	if r == nil {
		return False()
	}
	if sc.oldMem != nil {
		if _, existed := sc.oldMem[r]; existed {
			return False()
		}
	}
	if r.kind == "heap" || r.kind == "local" {
		sc.en.flowOK++
		return True()
	}
	// results of callees under contract are fresh if the callee's contract says so (assumed at the call)
	if sc.st.freshRegions[r] {
		return True()
	}
	return False()
}

func (sc *specCtx) sqn(b, k *Term, m *big.Int, unfold bool) *Term {
	if kc, ok := k.ConstInt(); ok {
		if kc < 0 || kc > 4096 {
			fail("sqn: bad constant count")
		}
		return Pow(b, pow2(int(kc)))
	}
	t := UF("sqn", SInt, b, k)
	if unfold && !sc.st.typed[t.id] {
		sc.st.typed[t.id] = true
		// k = k' + 1  ==>  sqn(x,k) ≡ sqn(x,k')^2 (mod m)      [exponent law, M0]
		prev := sc.sqn(b, Sub(k, ConstI(1)), m, false)
		sc.st.assume(Imp(Eq(k, ConstI(0)), Eq(Mod(Sub(t, b), m), ConstI(0))))
		inst := Eq(Mod(Sub(t, Mul(prev, prev)), m), ConstI(0))
		if iv := sc.st.bounds.Interval(k); iv.lo != nil && iv.lo.Sign() > 0 {
			sc.st.assume(inst)
		} else {
			sc.st.assume(Imp(Le(ConstI(1), k), inst))
		}
	}
	return t
}
