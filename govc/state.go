package main

import (
	"fmt"
	"go/types"
	"math/big"
	"strings"

	"golang.org/x/tools/go/ssa"
)

// ---------- obligations ----------

type Obligation struct {
	Name    string
	Kind    string
	Func    string
	Facts   []*Term
	Goal    *Term
	Detail  string // human-readable description of what is being proved
	Pos     string
	Alg     bool // try polynomial normaliser first
	Flow    bool // decided syntactically by the executor (frame/fresh); Goal true/false
	Axioms  []string
	Trusted []string // trusted-base tags used
	Uses    map[string]bool // axioms the function's contract lists under `uses`
}

type SideCond struct {
	Cond *Term
	What string
}

// ---------- state ----------

type Frame struct {
	fn      *ssa.Function
	env     map[ssa.Value]Value
	block   *ssa.BasicBlock
	prev    *ssa.BasicBlock
	pc      int
	retTo   ssa.Value // call instruction in caller frame receiving the result
	visits  map[int]int
	loopSt  map[int]*loopState // active invariant loops by header block index
	spec    *specCtx           // contract context of the function under verification (top frame only)
}

type loopState struct {
	entered bool
	arrivals int
	mem     map[*Region]Cell // memory at loop head after havoc
}

type State struct {
	frames   []*Frame
	mem      map[*Region]Cell
	facts    []*Term
	bounds   *Bounds
	side     []SideCond
	sideSeen map[int]bool
	sideMark int // index into side up to which side conditions have been emitted as obligations
	typed    map[int]bool
	cutDone  map[int]bool
	sidePending int
	entropyReads []*Term
	freshRegions map[*Region]bool
	ifaceRefined map[int]IfaceV
	ifaceDenied  map[int]bool
	quantDepth int
	caseConcl []*Term // conclusions of bycases(...) assertions evaluated last
	wframe   *writeFrame // write-frame of the function under verification (nil: none declared)
	persist  []*Term // facts that survive a cut: entry assumptions and earlier cut assertions
	steps    int
	trace    []string
	// termination
	done     bool
	panicked bool
	panicMsg string
	result   Value
	infeasible bool
}

func (st *State) clone() *State {
	n := &State{
		mem:      make(map[*Region]Cell, len(st.mem)),
		facts:    st.facts[:len(st.facts):len(st.facts)],
		bounds:   st.bounds.Clone(),
		side:     st.side[:len(st.side):len(st.side)],
		sideSeen: make(map[int]bool, len(st.sideSeen)),
		sideMark: st.sideMark,
		typed:    make(map[int]bool, len(st.typed)),
		cutDone:  make(map[int]bool, len(st.cutDone)),
		persist:  st.persist[:len(st.persist):len(st.persist)],
		sidePending: st.sidePending,
		entropyReads: st.entropyReads[:len(st.entropyReads):len(st.entropyReads)],
		freshRegions: copyRegionSet(st.freshRegions),
		wframe:   st.wframe,
		ifaceRefined: copyIfaceMap(st.ifaceRefined),
		ifaceDenied:  copyIntSet(st.ifaceDenied),
		steps:    st.steps,
		trace:    st.trace[:len(st.trace):len(st.trace)],
	}
	for k, v := range st.mem {
		n.mem[k] = v
	}
	for k, v := range st.sideSeen {
		n.sideSeen[k] = v
	}
	for k, v := range st.typed {
		n.typed[k] = v
	}
	for k, v := range st.cutDone {
		n.cutDone[k] = v
	}
	for _, f := range st.frames {
		nf := *f
		nf.env = make(map[ssa.Value]Value, len(f.env))
		for k, v := range f.env {
			nf.env[k] = v
		}
		nf.visits = make(map[int]int, len(f.visits))
		for k, v := range f.visits {
			nf.visits[k] = v
		}
		nf.loopSt = make(map[int]*loopState, len(f.loopSt))
		for k, v := range f.loopSt {
			c := *v
			nf.loopSt[k] = &c
		}
		n.frames = append(n.frames, &nf)
	}
	return n
}

func (st *State) top() *Frame { return st.frames[len(st.frames)-1] }

func (st *State) assume(f *Term) {
	if f.IsTrue() {
		return
	}
	if f.op == OAnd {
		for _, a := range f.args {
			st.assume(a)
		}
		return
	}
	st.facts = append(st.facts, f)
	st.bounds.Learn(f)
}

func (st *State) addSide(c *Term, what string) {
	if c.IsTrue() {
		return
	}
	if st.sideSeen[c.id] {
		return
	}
	st.sideSeen[c.id] = true
	st.side = append(st.side, SideCond{c, what})
	st.sidePending++
}

// ---------- memory ----------

type Engine struct {
	prog      *ssa.Program
	pkgs      map[string]*ssa.Package
	contracts map[string]*PkgContracts // by package path
	regionSeq int
	globals   map[*ssa.Global]*Region
	globalInit map[*ssa.Global]Cell
	obls      []*Obligation
	oblSeq    map[string]int
	curFunc   string
	cfgName   string
	errors    []string
	maxSteps  int
	maxPaths  int
	paths     int
	inlineDepthMax int
	noElide   bool
	tablesSymbolic bool
	forceInline   map[string]bool
	inlined       map[string]bool
	usedContracts map[string]bool
	assumedUsed   map[string]bool
	usedLoops     map[string]bool
	loopHdrCache  map[*ssa.Function]map[int]int
	callOrdCache  map[*ssa.Function]map[ssa.Instruction]int
	usedCuts      map[string]bool
	anchorCache   map[*ssa.Function]*cutAnchorSet
	preds         map[string]bool
	flowOK        int
	sideBatch     int
	debugNames    map[ssa.Value]string
	externCalls   map[string]bool
	initMode      bool
	usedAxioms    map[string]bool
	unsafeUses    map[string]bool
	inlineNames   map[string]bool
	curUses       map[string]bool
	missingAnchors map[string]bool
	sliceBindActive bool
	ctWriteCache  map[*ssa.Function]map[int]bool
	initMem       map[*Region]Cell // memory allocated by package initialisers
	aliasConds    []*Term
	pendingForks  []*State
	ctWriteBusy   map[*ssa.Function]bool
	groundDone    bool
	groundFacts   []*Term
	groundResults []GroundResult
}

func (en *Engine) newRegion(name string, t types.Type, kind string) *Region {
	en.regionSeq++
	return &Region{id: en.regionSeq, name: fmt.Sprintf("%s#%d", name, en.regionSeq), typ: t, kind: kind}
}

func (en *Engine) oblName(kind string) string {
	key := en.curFunc + "/" + kind
	en.oblSeq[key]++
	return fmt.Sprintf("%s[%s]/%s#%d", en.curFunc, en.cfgName, kind, en.oblSeq[key])
}

func (en *Engine) addObl(st *State, kind string, goal *Term, detail string, pos string) *Obligation {
	// conjunctions of a postcondition / cut / invariant become one obligation per conjunct
	if goal.op == OAnd && (kind == "post" || strings.HasPrefix(kind, "cut@") || strings.HasPrefix(kind, "inv-") || strings.HasPrefix(kind, "pre@")) && len(goal.args) <= 2000 {
		var last *Obligation
		for i, g := range goal.args {
			last = en.addObl(st, kind, g, fmt.Sprintf("%s [conjunct %d/%d]", detail, i+1, len(goal.args)), pos)
			last.Alg = true
		}
		return last
	}
	// A ==> (B1 && B2 ...) is split like a conjunction
	if goal.op == OImp && goal.args[1].op == OAnd && len(goal.args[1].args) <= 2000 && (kind == "post" || strings.HasPrefix(kind, "cut@") || strings.HasPrefix(kind, "inv-")) {
		var last *Obligation
		n := len(goal.args[1].args)
		for i, g := range goal.args[1].args {
			last = en.addObl(st, kind, Imp(goal.args[0], g), fmt.Sprintf("%s [conjunct %d/%d]", detail, i+1, n), pos)
			last.Alg = true
		}
		return last
	}
	// an implication whose premise is (the negation of) a fact of this path is resolved here
	if goal.op == OImp {
		prem := goal.args[0]
		np := Not(prem)
		for _, f := range st.facts {
			if f == prem {
				return en.addObl(st, kind, goal.args[1], detail, pos)
			}
			if f == np {
				goal = True()
				break
			}
		}
	}
	o := &Obligation{Name: en.oblName(kind), Kind: kind, Func: en.curFunc, Facts: st.facts[:len(st.facts):len(st.facts)], Goal: goal, Detail: detail, Pos: pos, Uses: en.curUses}
	en.obls = append(en.obls, o)
	return o
}

// flushSide turns the side conditions accumulated since the last flush into
// one obligation (they must hold under the facts known at this point).
func (en *Engine) flushSide(st *State) {
	if st.sideMark >= len(st.side) {
		return
	}
	var cs []*Term
	var what []string
	for _, s := range st.side[st.sideMark:] {
		cs = append(cs, s.Cond)
		if len(what) < 6 {
			what = append(what, s.What)
		}
	}
	n := len(st.side) - st.sideMark
	st.sideMark = len(st.side)
	st.sidePending = 0
	g := And(cs...)
	if g.IsTrue() {
		return
	}
	en.addObl(st, "exact", g, fmt.Sprintf("%d machine-arithmetic side conditions (no unintended wrap / disjoint bit ranges), e.g. %s", n, strings.Join(what, "; ")), "")
	// after being proved they may be used
	for _, c := range cs {
		st.assume(c)
	}
}

func (en *Engine) errorf(format string, a ...interface{}) {
	en.errors = append(en.errors, fmt.Sprintf(format, a...))
}

type execError struct{ msg string }

func (e execError) Error() string { return e.msg }

func fail(format string, a ...interface{}) { panic(execError{fmt.Sprintf(format, a...)}) }

// navigate returns the cell at path inside c, and a function rebuilding c with a replaced sub-cell.
// flat navigation state: inside a flattened array of aggregates, at leaf offset base, type t
type flatView struct {
	sa   *SymArrCell
	base *Term
}

// flatStep advances a flat view by one path element.
func flatStep(base *Term, t types.Type, pe PathEl) (*Term, types.Type) {
	switch u := t.Underlying().(type) {
	case *types.Struct:
		off := 0
		for i := 0; i < pe.Field; i++ {
			off += leafCount(u.Field(i).Type())
		}
		return Add(base, ConstI(int64(off))), u.Field(pe.Field).Type()
	case *types.Array:
		return Add(base, MulC(pe.Idx, bi(int64(leafCount(u.Elem()))))), u.Elem()
	}
	fail("flat navigation: cannot navigate %s", t)
	return nil, nil
}

func (en *Engine) flatLeaf(st *State, sa *SymArrCell, idx *Term, lt types.Type) *Term {
	s := Select(sa.Arr, idx)
	if s.op == OSelect && !st.typed[s.id] && st.quantDepth == 0 {
		st.typed[s.id] = true
		if lo, hi, ok := typeRange(lt); ok {
			st.assume(Le(Const(lo), s))
			st.assume(Le(s, Const(hi)))
		}
	}
	if isBool(lt) && s.sort == SInt {
		return Not(Eq(s, ConstI(0)))
	}
	return s
}

func (en *Engine) flatMaterialize(st *State, fv *flatView, t types.Type) Cell {
	n := 0
	return buildCell(t, &n, func(i int, lt types.Type) *Term {
		return en.flatLeaf(st, fv.sa, Add(fv.base, ConstI(int64(i))), lt)
	})
}

func (en *Engine) loadPath(st *State, c Cell, path []PathEl, t types.Type) (Cell, types.Type) {
	var fv *flatView
	for _, pe := range path {
		if fv != nil {
			fv.base, t = flatStep(fv.base, t, pe)
			continue
		}
		if u, ok := t.Underlying().(*types.Array); ok {
			if sa, ok := c.(*SymArrCell); ok && isAggType(sa.Elem) {
				fv = &flatView{sa: sa, base: MulC(pe.Idx, bi(int64(leafCount(u.Elem()))))}
				t = u.Elem()
				continue
			}
		}
		switch u := t.Underlying().(type) {
		case *types.Struct:
			sc, ok := c.(*StructCell)
			if !ok {
				fail("loadPath: struct cell expected, got %T", c)
			}
			c = sc.Fields[pe.Field]
			t = u.Field(pe.Field).Type()
		case *types.Array:
			c = en.indexCell(st, c, pe.Idx, u.Elem())
			t = u.Elem()
		default:
			// symbolic array region of element type (slice backing store)
			if sa, ok := c.(*SymArrCell); ok {
				c = en.symSelect(st, sa, pe.Idx)
				t = sa.Elem
				continue
			}
			if ls, ok := c.(*LazySlices); ok {
				c = en.lazyElem(st, ls, pe.Idx)
				t = types.NewSlice(ls.Elem)
				continue
			}
			fail("loadPath: cannot navigate %s", t)
		}
	}
	if fv != nil {
		return en.flatMaterialize(st, fv, t), t
	}
	return c, t
}

func (en *Engine) symSelect(st *State, sa *SymArrCell, idx *Term) Cell {
	s := Select(sa.Arr, idx)
	if isBool(sa.Elem) {
		// booleans are stored as 0/1 in symbolic arrays
		if s.sort == SBool {
			return s
		}
		return Not(Eq(s, ConstI(0)))
	}
	if s.op == OSelect && !st.typed[s.id] && st.quantDepth == 0 {
		st.typed[s.id] = true
		if lo, hi, ok := typeRange(sa.Elem); ok {
			st.assume(Le(Const(lo), s))
			st.assume(Le(s, Const(hi)))
		}
	}
	return s
}

func boolToInt(v *Term) *Term {
	if v.sort == SBool {
		return Ite(v, ConstI(1), ConstI(0))
	}
	return v
}

func (en *Engine) indexCell(st *State, c Cell, idx *Term, elem types.Type) Cell {
	switch a := c.(type) {
	case *ArrCell:
		if k, ok := idx.ConstInt(); ok {
			if k < 0 || int(k) >= len(a.Elems) {
				fail("constant index %d out of range [0,%d)", k, len(a.Elems))
			}
			return a.Elems[k]
		}
		// symbolic index into a concrete array of scalars: ite chain
		if len(a.Elems) <= 512 {
			if _, ok := a.Elems[0].(*Term); ok {
				var r *Term = a.Elems[len(a.Elems)-1].(*Term)
				for i := len(a.Elems) - 2; i >= 0; i-- {
					r = Ite(Eq(idx, ConstI(int64(i))), a.Elems[i].(*Term), r)
				}
				return r
			}
			// aggregate elements: build element-wise ite
			return en.iteCells(idx, a.Elems, 0)
		}
		fail("symbolic index into large concrete array")
	case *SymArrCell:
		if isAggType(a.Elem) {
			return en.flatMaterialize(st, &flatView{sa: a, base: MulC(idx, bi(int64(leafCount(a.Elem))))}, a.Elem)
		}
		return en.symSelect(st, a, idx)
	}
	fail("indexCell: not an array cell: %T", c)
	return nil
}

func (en *Engine) iteCells(idx *Term, elems []Cell, from int) Cell {
	if from == len(elems)-1 {
		return elems[from]
	}
	rest := en.iteCells(idx, elems, from+1)
	return mergeCells(Eq(idx, ConstI(int64(from))), elems[from], rest)
}

func mergeCells(c *Term, a, b Cell) Cell {
	if cellEqual(a, b) {
		return a
	}
	switch x := a.(type) {
	case *ArrCell:
		y := b.(*ArrCell)
		es := make([]Cell, len(x.Elems))
		for i := range es {
			es[i] = mergeCells(c, x.Elems[i], y.Elems[i])
		}
		return &ArrCell{es}
	case *StructCell:
		y := b.(*StructCell)
		fs := make([]Cell, len(x.Fields))
		for i := range fs {
			fs[i] = mergeCells(c, x.Fields[i], y.Fields[i])
		}
		return &StructCell{fs}
	case *Term:
		return Ite(c, x, b.(*Term))
	}
	fail("mergeCells: unsupported cell %T", a)
	return nil
}

func (en *Engine) storePath(st *State, c Cell, path []PathEl, t types.Type, v Cell) Cell {
	if len(path) == 0 {
		return v
	}
	pe := path[0]
	switch u := t.Underlying().(type) {
	case *types.Struct:
		sc := c.(*StructCell)
		fs := append([]Cell(nil), sc.Fields...)
		fs[pe.Field] = en.storePath(st, sc.Fields[pe.Field], path[1:], u.Field(pe.Field).Type(), v)
		return &StructCell{fs}
	case *types.Array:
		switch a := c.(type) {
		case *ArrCell:
			if k, ok := pe.Idx.ConstInt(); ok {
				es := append([]Cell(nil), a.Elems...)
				es[k] = en.storePath(st, a.Elems[k], path[1:], u.Elem(), v)
				return &ArrCell{es}
			}
			// symbolic index store: every element becomes ite(idx==i, new, old)
			es := make([]Cell, len(a.Elems))
			for i := range es {
				nv := en.storePath(st, a.Elems[i], path[1:], u.Elem(), v)
				es[i] = mergeCells(Eq(pe.Idx, ConstI(int64(i))), nv, a.Elems[i])
			}
			return &ArrCell{es}
		case *SymArrCell:
			if isAggType(a.Elem) {
				base := MulC(pe.Idx, bi(int64(leafCount(u.Elem()))))
				et := u.Elem()
				for _, q := range path[1:] {
					base, et = flatStep(base, et, q)
				}
				var leaves []*Term
				flattenCell(v, &leaves)
				if len(leaves) != leafCount(et) {
					fail("flat store: %d leaves for %s", len(leaves), et)
				}
				arr := a.Arr
				for i, l := range leaves {
					if l.sort == SBool {
						l = Ite(l, ConstI(1), ConstI(0))
					}
					arr = Store(arr, Add(base, ConstI(int64(i))), l)
				}
				return &SymArrCell{Arr: arr, N: a.N, Elem: a.Elem}
			}
			if len(path) != 1 {
				fail("store into element of symbolic array of aggregates")
			}
			return &SymArrCell{Arr: Store(a.Arr, pe.Idx, boolToInt(v.(*Term))), N: a.N, Elem: a.Elem}
		}
	default:
		if sa, ok := c.(*SymArrCell); ok {
			if len(path) != 1 {
				fail("store into element of symbolic array of aggregates")
			}
			tv, ok := v.(*Term)
			if !ok {
				fail("store of non-scalar into symbolic array")
			}
			return &SymArrCell{Arr: Store(sa.Arr, pe.Idx, boolToInt(tv)), N: sa.N, Elem: sa.Elem}
		}
	}
	fail("storePath: cannot navigate %s with %T", t, c)
	return nil
}

func (en *Engine) regionCell(st *State, r *Region) Cell {
	c, ok := st.mem[r]
	if !ok {
		if r.kind == "global" {
			c = en.globalCell(st, r)
			st.mem[r] = c
			return c
		}
		if ic, ok := en.initMem[r]; ok {
			st.mem[r] = ic
			return ic
		}
		fail("region %s has no contents", r.name)
	}
	return c
}

func (en *Engine) load(st *State, p PtrV, t types.Type) Value {
	if p.R == nil {
		fail("nil pointer dereference (unguarded)")
	}
	c, _ := en.loadPath(st, en.regionCell(st, p.R), p.Path, p.R.typ)
	return cellToValue(c, t)
}

func cellToValue(c Cell, t types.Type) Value {
	switch c.(type) {
	case *ArrCell, *StructCell, *SymArrCell:
		return AggV{T: t, C: c}
	}
	return c
}

func valueToCell(v Value) Cell {
	if a, ok := v.(AggV); ok {
		return a.C
	}
	return v
}

func (en *Engine) store(st *State, p PtrV, v Value) {
	if p.R == nil {
		fail("nil pointer store (unguarded)")
	}
	c := en.regionCell(st, p.R)
	st.mem[p.R] = en.storePath(st, c, p.Path, p.R.typ, valueToCell(v))
}

// element access for slices
func (en *Engine) sliceElemPtr(s SliceV, idx *Term) PtrV {
	return PtrV{R: s.R, Path: appendPath(s.Path, PathEl{Idx: Add(s.Off, idx)})}
}

func (en *Engine) globalCell(st *State, r *Region) Cell {
	if c, ok := en.globalInit[r.global]; ok {
		return c
	}
	if en.initMode {
		return zeroCell(r.typ)
	}
	if r.global != nil && r.global.Pkg != nil && modulePkg(r.global.Pkg.Pkg.Path()) {
		// a variable of the module that no initialiser assigns holds its zero value; that no other
		// function writes it is the global-immutable obligation of C15
		en.externCalls["package variable "+r.name+" holds its zero value (never assigned by an initialiser; immutability is C15's global-immutable obligation)"] = true
		return zeroCell(r.typ)
	}
	// unknown global contents (variables of other packages): symbolic; interface-valued ones
	// such as crypto/rand.Reader are assumed non-nil
	var facts []*Term
	c := freshCell(r.typ, r.name, &facts)
	if iv, ok := c.(IfaceV); ok && iv.Sym != nil {
		facts = append(facts, Le(ConstI(1), iv.Sym))
		en.externCalls["package variable "+r.name+" of another package is assumed to hold a non-nil value"] = true
	}
	for _, f := range facts {
		st.assume(f)
	}
	return c
}

func (en *Engine) globalRegion(g *ssa.Global) *Region {
	if r, ok := en.globals[g]; ok {
		return r
	}
	t := g.Type().(*types.Pointer).Elem()
	en.regionSeq++
	r := &Region{id: en.regionSeq, name: g.Pkg.Pkg.Name() + "." + g.Name(), typ: t, kind: "global", global: g}
	en.globals[g] = r
	return r
}

func bigOf(v int64) *big.Int { return big.NewInt(v) }

func copyRegionSet(m map[*Region]bool) map[*Region]bool {
	n := make(map[*Region]bool, len(m))
	for k, v := range m {
		n[k] = v
	}
	return n
}

func copyIfaceMap(m map[int]IfaceV) map[int]IfaceV {
	n := make(map[int]IfaceV, len(m))
	for k, v := range m {
		n[k] = v
	}
	return n
}

func copyIntSet(m map[int]bool) map[int]bool {
	n := make(map[int]bool, len(m))
	for k, v := range m {
		n[k] = v
	}
	return n
}
