package main

// Exact integer polynomial arithmetic over opaque atoms, used by the `alg`
// back end: goals of the form  X ≡ 0 (mod m)  (or X = 0) are decided by
// eliminating variables through assumed congruences/equalities (each assumed
// fact E ≡ 0 is used as  x ≡ -c^{-1}·(E - c·x)  for an atom x that occurs in E
// only linearly; the substitution is done on the term DAG), expanding the
// result and checking that every coefficient is divisible by m.
// Div(t, k) terms are atoms; Mod(t, k) is rewritten as t - k·Div(t, k), which
// is an identity for floor division. Pow(t, e) with a huge exponent is
// supported when its base normalises to a single monomial.

import (
	"fmt"
	"os"
	"math/big"
	"sort"
	"strings"
)

type Mono struct {
	vars []int      // sorted atom ids
	exps []*big.Int // matching exponents (>0)
}

func (m Mono) key() string {
	var sb strings.Builder
	for i, v := range m.vars {
		fmt.Fprintf(&sb, "%d^%s.", v, m.exps[i].String())
	}
	return sb.String()
}

func monoMul(a, b Mono) Mono {
	var r Mono
	i, j := 0, 0
	for i < len(a.vars) || j < len(b.vars) {
		switch {
		case j >= len(b.vars) || (i < len(a.vars) && a.vars[i] < b.vars[j]):
			r.vars = append(r.vars, a.vars[i])
			r.exps = append(r.exps, a.exps[i])
			i++
		case i >= len(a.vars) || b.vars[j] < a.vars[i]:
			r.vars = append(r.vars, b.vars[j])
			r.exps = append(r.exps, b.exps[j])
			j++
		default:
			r.vars = append(r.vars, a.vars[i])
			r.exps = append(r.exps, new(big.Int).Add(a.exps[i], b.exps[j]))
			i++
			j++
		}
	}
	return r
}

func (m Mono) degreeOf(x int) *big.Int {
	for i, v := range m.vars {
		if v == x {
			return m.exps[i]
		}
	}
	return nil
}

type Poly struct {
	coef map[string]*big.Int
	mono map[string]Mono
}

type polyBase struct {
	atom int   // atom standing for the base value
	x    int   // variable of the base polynomial with unit coefficient
	sign int   // its coefficient (+1/-1)
	rest *Poly // base polynomial minus sign*x
}

type PolyCtx struct {
	atoms map[int]*Term
	limit int
	mod   *big.Int // modulus for coefficient reduction (may be nil)
	bases []polyBase
	baseOf map[string]int
}

func NewPolyCtx(mod *big.Int) *PolyCtx {
	return &PolyCtx{atoms: map[int]*Term{}, limit: 400000, mod: mod, baseOf: map[string]int{}}
}

func newPoly() *Poly { return &Poly{coef: map[string]*big.Int{}, mono: map[string]Mono{}} }

func (p *Poly) addMono(m Mono, c *big.Int) {
	if c.Sign() == 0 {
		return
	}
	k := m.key()
	if old, ok := p.coef[k]; ok {
		n := new(big.Int).Add(old, c)
		if n.Sign() == 0 {
			delete(p.coef, k)
			delete(p.mono, k)
		} else {
			p.coef[k] = n
		}
		return
	}
	p.coef[k] = new(big.Int).Set(c)
	p.mono[k] = m
}

func (p *Poly) addPoly(q *Poly, c *big.Int) {
	for k, qc := range q.coef {
		p.addMono(q.mono[k], new(big.Int).Mul(qc, c))
	}
}

func polyConst(c *big.Int) *Poly {
	p := newPoly()
	p.addMono(Mono{}, c)
	return p
}

func (pc *PolyCtx) mul(a, b *Poly) (*Poly, error) {
	r := newPoly()
	if len(a.coef)*len(b.coef) > pc.limit {
		return nil, fmt.Errorf("polynomial product too large (%d x %d)", len(a.coef), len(b.coef))
	}
	for ka, ca := range a.coef {
		for kb, cb := range b.coef {
			c := new(big.Int).Mul(ca, cb)
			if pc.mod != nil {
				c.Mod(c, pc.mod)
			}
			r.addMono(monoMul(a.mono[ka], b.mono[kb]), c)
		}
	}
	return r, nil
}

func (pc *PolyCtx) atom(t *Term) *Poly {
	pc.atoms[t.id] = t
	p := newPoly()
	p.addMono(Mono{vars: []int{t.id}, exps: []*big.Int{bi(1)}}, bi(1))
	return p
}

func (pc *PolyCtx) Of(t *Term, memo map[int]*Poly) (*Poly, error) {
	if p, ok := memo[t.id]; ok {
		return p, nil
	}
	var p *Poly
	var err error
	switch t.op {
	case OConst:
		p = polyConst(t.k)
	case OAdd:
		p = newPoly()
		for _, a := range t.args {
			q, e := pc.Of(a, memo)
			if e != nil {
				return nil, e
			}
			p.addPoly(q, bi(1))
		}
	case OMul:
		p = polyConst(t.k)
		for _, a := range t.args {
			q, e := pc.Of(a, memo)
			if e != nil {
				return nil, e
			}
			p, err = pc.mul(p, q)
			if err != nil {
				return nil, err
			}
			if len(pc.bases) > 0 && len(p.coef) > 1 {
				if p, err = pc.fold(p); err != nil {
					return nil, err
				}
			}
		}
	case OMod:
		// Mod(x,k) = x - k*Div(x,k)
		x, e := pc.Of(t.args[0], memo)
		if e != nil {
			return nil, e
		}
		dp, e := pc.divPoly(t.args[0], t.k, memo)
		if e != nil {
			return nil, e
		}
		p = newPoly()
		p.addPoly(x, bi(1))
		p.addPoly(dp, new(big.Int).Neg(t.k))
	case ODiv:
		p, err = pc.divPoly(t.args[0], t.k, memo)
		if err != nil {
			return nil, err
		}
	case OPow:
		b, e := pc.Of(t.args[0], memo)
		if e != nil {
			return nil, e
		}
		switch {
		case t.k.Sign() == 0:
			p = polyConst(bi(1))
		case len(b.coef) == 0:
			p = newPoly()
		case len(b.coef) == 1:
			return pc.powMono(b, t.k)
		default:
			// non-monomial base: fold known bases, then name the base value by an atom
			fb, e2 := pc.fold(b)
			if e2 != nil {
				return nil, e2
			}
			if len(fb.coef) <= 1 {
				return pc.powMono(fb, t.k)
			}
			if a, ok := pc.registerBase(fb, t.args[0]); ok {
				p = newPoly()
				p.addMono(Mono{vars: []int{a}, exps: []*big.Int{new(big.Int).Set(t.k)}}, bi(1))
			} else if t.k.BitLen() <= 2 {
				b = fb
				p = polyConst(bi(1))
				for i := int64(0); i < t.k.Int64(); i++ {
					p, err = pc.mul(p, b)
					if err != nil {
						return nil, err
					}
				}
			} else {
				p = pc.atom(t)
			}
		}
	default:
		p = pc.atom(t)
	}
	if pc.mod != nil {
		p.reduceMod(pc.mod)
	}
	memo[t.id] = p
	return p, nil
}

func (p *Poly) reduceMod(m *big.Int) {
	for k, c := range p.coef {
		r := new(big.Int).Mod(c, m)
		if r.Sign() == 0 {
			delete(p.coef, k)
			delete(p.mono, k)
		} else if r.Cmp(c) != 0 {
			p.coef[k] = r
		}
	}
}

func (p *Poly) isZero() bool { return len(p.coef) == 0 }

func (pc *PolyCtx) String(p *Poly) string {
	var ks []string
	for k := range p.coef {
		ks = append(ks, k)
	}
	sort.Strings(ks)
	var sb strings.Builder
	lim := 6
	if os.Getenv("GOVC_DEBUG") != "" {
		lim = 100000
	}
	for i, k := range ks {
		if i > lim {
			fmt.Fprintf(&sb, " + ... (%d terms)", len(ks))
			break
		}
		if i > 0 {
			sb.WriteString(" + ")
		}
		sb.WriteString(Const(p.coef[k]).String())
		m := p.mono[k]
		for j, v := range m.vars {
			sb.WriteString("*" + pc.atoms[v].String())
			if m.exps[j].Cmp(bi(1)) != 0 {
				sb.WriteString("^" + Const(m.exps[j]).String())
			}
		}
	}
	if len(ks) == 0 {
		return "0"
	}
	return sb.String()
}

// toTerm converts a polynomial back to a term.
func (pc *PolyCtx) toTerm(p *Poly) *Term {
	var ks []string
	for k := range p.coef {
		ks = append(ks, k)
	}
	sort.Strings(ks)
	var sum []*Term
	for _, k := range ks {
		m := p.mono[k]
		fs := []*Term{Const(p.coef[k])}
		for j, v := range m.vars {
			at := pc.atoms[v]
			if at.op == OUF && at.name == "base$" {
				at = at.args[0] // a base atom stands for its polynomial
			}
			if m.exps[j].Cmp(bi(1)) == 0 {
				fs = append(fs, at)
			} else {
				fs = append(fs, Pow(at, m.exps[j]))
			}
		}
		sum = append(sum, Mul(fs...))
	}
	return Add(append(sum, ConstI(0))...)
}

// congruence view of a fact: X ≡ 0 (mod m) (m == nil: exact equality X = 0)
func asCongruence(f *Term) (x *Term, m *big.Int, ok bool) {
	if f.op != OEq {
		return nil, nil, false
	}
	a, b := f.args[0], f.args[1]
	if a.sort != SInt {
		return nil, nil, false
	}
	// a mod m == b mod m  is  a ≡ b (mod m)
	if a.op == OMod && b.op == OMod && a.k.Cmp(b.k) == 0 {
		return Sub(a.args[0], b.args[0]), a.k, true
	}
	if b.op == OMod && a.op == OConst && a.k.Sign() == 0 {
		a, b = b, a
	}
	if a.op == OMod && b.op == OConst && b.k.Sign() == 0 {
		return a.args[0], a.k, true
	}
	return Sub(a, b), nil, true
}

func flattenFacts(facts []*Term) []*Term {
	var flat []*Term
	var fl func(t *Term)
	fl = func(t *Term) {
		if t.op == OAnd {
			for _, a := range t.args {
				fl(a)
			}
			return
		}
		flat = append(flat, t)
	}
	for _, f := range facts {
		fl(f)
	}
	return flat
}

// AlgProve tries to establish goal (a congruence or an equality, or a
// conjunction of such) from facts by elimination and normalisation.
func AlgProve(facts []*Term, goal *Term) (bool, string) {
	if goal.op == OAnd {
		var why []string
		for _, g := range goal.args {
			ok, w := AlgProve(facts, g)
			if !ok {
				return false, w
			}
			why = append(why, w)
		}
		return true, strings.Join(why, "; ")
	}
	gx, gm, ok := asCongruence(goal)
	if !ok {
		return false, "goal is not an equality/congruence"
	}
	pc := NewPolyCtx(gm)
	d, err := pc.Of(gx, map[int]*Poly{})
	if err == nil {
		d, err = pc.fold(d)
	}
	if err != nil {
		return false, err.Error()
	}
	if d.isZero() {
		return true, "identity after expansion"
	}
	flat := flattenFacts(facts)
	var spanFacts []*Poly
	// strategy 1: goal in the linear span of the assumed equalities/congruences
	{
		var fps []*Poly
		// only facts sharing a variable with the goal (or with such a fact) can matter
		rel := relevantFacts(flat, gx, 3)
		for _, f := range rel {
			x, m, ok := asCongruence(f)
			if !ok {
				continue
			}
			if m != nil && (gm == nil || new(big.Int).Mod(m, gm).Sign() != 0) {
				continue
			}
			if termSize(x, 4000) >= 4000 {
				continue
			}
			fp, err := pc.Of(x, map[int]*Poly{})
			if err != nil {
				continue
			}
			if fp, err = pc.fold(fp); err == nil {
				fps = append(fps, fp)
			}
		}
		// bases registered while converting later facts: fold everything once more
		if len(pc.bases) > 0 {
			if nd, e := pc.fold(d); e == nil {
				d = nd
			}
			for i := range fps {
				if nf, e := pc.fold(fps[i]); e == nil {
					fps[i] = nf
				}
			}
		}
		spanFacts = fps
		if len(fps) > 0 && pc.spanProve(d, fps) {
			return true, fmt.Sprintf("in the linear span of %d assumed equalities", len(fps))
		}
		// strategy 1b: power bases that the facts make congruent are identified (a = b mod m implies
		// a^k = b^k mod m); the goal is then re-examined
		if len(pc.bases) >= 2 && len(fps) > 0 && len(pc.bases) <= 6 {
			renamed := 0
			for i := 0; i < len(pc.bases); i++ {
				for j := i + 1; j < len(pc.bases); j++ {
					ai, aj := pc.bases[i].atom, pc.bases[j].atom
					diff := newPoly()
					diff.addMono(Mono{vars: []int{ai}, exps: []*big.Int{bi(1)}}, bi(1))
					diff.addMono(Mono{vars: []int{aj}, exps: []*big.Int{bi(1)}}, bi(-1))
					if gm != nil {
						diff.reduceMod(gm)
					}
					if !pc.spanProve(diff, fps) {
						continue
					}
					d = pc.renameAtom(d, aj, ai)
					for k := range fps {
						fps[k] = pc.renameAtom(fps[k], aj, ai)
					}
					renamed++
				}
			}
			if renamed > 0 {
				if d.isZero() || pc.spanProve(d, fps) {
					return true, fmt.Sprintf("in the linear span of %d assumed equalities after identifying %d congruent power bases", len(fps), renamed)
				}
				// goal-directed elimination on the renamed goal: substitute unit atoms of the facts
				if ok := pc.elimProve(d, fps); ok {
					return true, fmt.Sprintf("normal form 0 after identifying %d congruent power bases", renamed)
				}
			}
		}
		if os.Getenv("GOVC_DEBUG") != "" {
			fmt.Fprintf(os.Stderr, "alg: span failed with %d fact polys; goal poly: %s\n", len(fps), pc.String(d))
			for _, fp := range fps {
				fmt.Fprintf(os.Stderr, "alg:   factpoly: %s\n", pc.String(fp))
			}
		}
	}
	used := 0
	cur := gx
	for i := len(flat) - 1; i >= 0; i-- {
		x, m, ok := asCongruence(flat[i])
		if !ok {
			continue
		}
		if m != nil && (gm == nil || new(big.Int).Mod(m, gm).Sign() != 0) {
			continue
		}
		// atoms occurring in the current goal
		inGoal := map[int]bool{}
		walk(cur, map[int]bool{}, func(t *Term) { inGoal[t.id] = true })
		e, err := pc.Of(x, map[int]*Poly{})
		if err != nil || e.isZero() {
			continue
		}
		best := -1
		bestUnit := false
		var bestInv *big.Int
		for k, co := range e.coef {
			mo := e.mono[k]
			if len(mo.vars) != 1 || mo.exps[0].Cmp(bi(1)) != 0 {
				continue
			}
			xv := mo.vars[0]

			// must not occur in any other monomial of e
			cnt := 0
			for _, m2 := range e.mono {
				if m2.degreeOf(xv) != nil {
					cnt++
				}
			}
			if cnt != 1 {
				continue
			}
			// only eliminate plain variables / selects / UF atoms, never Div atoms of the code itself
			at := pc.atoms[xv]
			if at.op != OVar && at.op != OSelect && at.op != OUF {
				continue
			}
			var inv *big.Int
			if gm != nil && new(big.Int).Add(co, bi(1)).Cmp(gm) == 0 {
				co = bi(-1)
			}
			unit := co.CmpAbs(bi(1)) == 0
			if unit {
				inv = new(big.Int).Set(co)
			} else if gm != nil {
				inv = new(big.Int).ModInverse(new(big.Int).Mod(co, gm), gm)
				if inv == nil {
					continue
				}
			} else {
				continue
			}
			if best < 0 || (unit && !bestUnit) || (unit == bestUnit && xv > best) {
				best, bestUnit, bestInv = xv, unit, inv
			}
		}
		// a fact is used in one direction only: to eliminate the newest atom it mentions
		if best >= 0 && !inGoal[best] {
			best = -1
		}
		if os.Getenv("GOVC_DEBUG") != "" {
			fmt.Fprintf(os.Stderr, "alg: fact %s -> best=%d\n", flat[i].str(3), best)
		}
		if best < 0 {
			continue
		}
		if m != nil && occursOpaque(cur, best) {
			if os.Getenv("GOVC_DEBUG") != "" {
				fmt.Fprintf(os.Stderr, "alg:   rejected (opaque occurrence)\n")
			}
			// a congruent value may only replace x in polynomial positions
			continue
		}
		rest := newPoly()
		for k, co := range e.coef {
			mo := e.mono[k]
			if len(mo.vars) == 1 && mo.vars[0] == best {
				continue
			}
			rest.addMono(mo, co)
		}
		q := newPoly()
		q.addPoly(rest, new(big.Int).Neg(bestInv))
		if gm != nil {
			q.reduceMod(gm)
		}
		rhs := pc.toTerm(q)
		// substitution only in polynomial positions: opaque atoms (quotients, uninterpreted
		// applications) keep their arguments, so that they stay syntactically equal to the facts' atoms
		cur = substRestricted(cur, map[int]*Term{}, map[int]*Term{best: rhs}, true, map[int]*Term{}, map[int]*Term{})
		used++
		nd, err2 := pc.Of(cur, map[int]*Poly{})
		if err2 == nil {
			nd, err2 = pc.fold(nd)
		}
		if err2 != nil {
			break // too large for the goal-directed strategy; fall through to the normal-form strategy
		}
		d = nd
		if d.isZero() {
			return true, fmt.Sprintf("normal form 0 after %d eliminations", used)
		}
		if len(d.coef) <= 600 && len(spanFacts) > 0 && pc.spanProve(d, spanFacts) {
			return true, fmt.Sprintf("in the linear span of the assumed equalities after %d eliminations", used)
		}
	}
	// strategy 3: normalise goal and all facts by the full definitional substitution, then linear span
	if ok, why := algNormalSpan(flat, gx, gm); ok {
		return true, why
	}
	return false, "residual: " + pc.String(d)
}

// occursOpaque reports whether atom x occurs in t below a non-polynomial operator.
func occursOpaque(t *Term, x int) bool {
	memoHas := map[int]bool{}
	var has func(t *Term) bool
	has = func(t *Term) bool {
		if v, ok := memoHas[t.id]; ok {
			return v
		}
		r := t.id == x
		for _, a := range t.args {
			if has(a) {
				r = true
			}
		}
		memoHas[t.id] = r
		return r
	}
	seen := map[int]bool{}
	var rec func(t *Term) bool
	rec = func(t *Term) bool {
		if seen[t.id] {
			return false
		}
		seen[t.id] = true
		switch t.op {
		case OAdd, OMul, OPow:
			for _, a := range t.args {
				if rec(a) {
					return true
				}
			}
			return false
		case OConst:
			return false
		}
		if t.id == x {
			return false
		}
		return has(t)
	}
	return rec(t)
}

func (pc *PolyCtx) powMono(b *Poly, k *big.Int) (*Poly, error) {
	p := newPoly()
	if len(b.coef) == 0 {
		return p, nil
	}
	for key, c := range b.coef {
		m := b.mono[key]
		var ce *big.Int
		if pc.mod != nil {
			ce = new(big.Int).Exp(new(big.Int).Mod(c, pc.mod), k, pc.mod)
		} else if c.CmpAbs(bi(1)) == 0 {
			ce = bi(1)
			if c.Sign() < 0 && k.Bit(0) == 1 {
				ce = bi(-1)
			}
		} else if k.BitLen() <= 10 {
			ce = new(big.Int).Exp(c, k, nil)
		} else {
			return nil, fmt.Errorf("huge power of non-unit coefficient without modulus")
		}
		nm := Mono{vars: append([]int(nil), m.vars...)}
		for _, ex := range m.exps {
			nm.exps = append(nm.exps, new(big.Int).Mul(ex, k))
		}
		p.addMono(nm, ce)
	}
	return p, nil
}

func (p *Poly) keyString() string {
	var ks []string
	for k, c := range p.coef {
		ks = append(ks, k+"*"+c.String())
	}
	sort.Strings(ks)
	return strings.Join(ks, "+")
}

// registerBase names the value of a (folded) non-monomial polynomial by an atom,
// provided it has a variable with coefficient +-1 occurring only linearly.
func (pc *PolyCtx) registerBase(b *Poly, t *Term) (int, bool) {
	ks := b.keyString()
	if i, ok := pc.baseOf[ks]; ok {
		return pc.bases[i].atom, true
	}
	best, sign := -1, 0
	for k, c := range b.coef {
		m := b.mono[k]
		if len(m.vars) != 1 || m.exps[0].Cmp(bi(1)) != 0 {
			continue
		}
		sg := 0
		switch {
		case c.CmpAbs(bi(1)) == 0:
			sg = c.Sign()
		case pc.mod != nil && new(big.Int).Add(c, bi(1)).Cmp(pc.mod) == 0:
			sg = -1 // coefficient -1 in reduced form
		default:
			continue
		}
		x := m.vars[0]
		cnt := 0
		for _, m2 := range b.mono {
			if m2.degreeOf(x) != nil {
				cnt++
			}
		}
		if cnt != 1 {
			continue
		}
		if at := pc.atoms[x]; at.op != OVar && at.op != OSelect {
			continue
		}
		if x > best {
			best, sign = x, sg
		}
	}
	if best < 0 {
		return 0, false
	}
	a := UF("base$", SInt, t)
	pc.atoms[a.id] = a
	rest := newPoly()
	for k, c := range b.coef {
		m := b.mono[k]
		if len(m.vars) == 1 && m.vars[0] == best && m.exps[0].Cmp(bi(1)) == 0 {
			continue
		}
		rest.addMono(m, c)
	}
	pc.baseOf[ks] = len(pc.bases)
	pc.bases = append(pc.bases, polyBase{atom: a.id, x: best, sign: sign, rest: rest})
	return a.id, true
}

// fold rewrites p so that registered base polynomials are expressed through their atoms:
// for base  B = s*x + rest  it substitutes  x := s*(A - rest).
func (pc *PolyCtx) fold(p *Poly) (*Poly, error) {
	for _, bs := range pc.bases {
		has := false
		for _, m := range p.mono {
			if m.degreeOf(bs.x) != nil {
				has = true
				break
			}
		}
		if !has {
			continue
		}
		q := newPoly()
		q.addMono(Mono{vars: []int{bs.atom}, exps: []*big.Int{bi(1)}}, bi(int64(bs.sign)))
		q.addPoly(bs.rest, bi(int64(-bs.sign)))
		np, err := pc.substPoly(p, bs.x, q)
		if err != nil {
			return nil, err
		}
		p = np
		if pc.mod != nil {
			p.reduceMod(pc.mod)
		}
	}
	return p, nil
}

// renameAtom replaces atom `from` by atom `to` in every monomial (exponents add).
func (pc *PolyCtx) renameAtom(p *Poly, from, to int) *Poly {
	r := newPoly()
	for k, c := range p.coef {
		m := p.mono[k]
		if m.degreeOf(from) == nil {
			r.addMono(m, c)
			continue
		}
		one := Mono{}
		for i, v := range m.vars {
			if v == from {
				v = to
			}
			one = monoMul(one, Mono{vars: []int{v}, exps: []*big.Int{m.exps[i]}})
		}
		r.addMono(one, c)
	}
	if pc.mod != nil {
		r.reduceMod(pc.mod)
	}
	return r
}

// elimProve: repeatedly use a fact polynomial with a unit-coefficient linear atom x (occurring in
// no other monomial of that fact) to substitute x in the goal polynomial; succeeds when the goal
// becomes 0 or falls in the span of the facts.
func (pc *PolyCtx) elimProve(d *Poly, fps []*Poly) bool {
	for round := 0; round < 12; round++ {
		progress := false
		for fi := len(fps) - 1; fi >= 0; fi-- {
			e := fps[fi]
			best, sign := -1, 0
			for k, c := range e.coef {
				m := e.mono[k]
				if len(m.vars) != 1 || m.exps[0].Cmp(bi(1)) != 0 {
					continue
				}
				sg := 0
				switch {
				case c.CmpAbs(bi(1)) == 0:
					sg = c.Sign()
				case pc.mod != nil && new(big.Int).Add(c, bi(1)).Cmp(pc.mod) == 0:
					sg = -1
				default:
					continue
				}
				x := m.vars[0]
				cnt := 0
				for _, m2 := range e.mono {
					if m2.degreeOf(x) != nil {
						cnt++
					}
				}
				if cnt != 1 || d.hasVar(x) == false {
					continue
				}
				if x > best {
					best, sign = x, sg
				}
			}
			if best < 0 {
				continue
			}
			q := newPoly()
			for k, c := range e.coef {
				m := e.mono[k]
				if len(m.vars) == 1 && m.vars[0] == best && m.exps[0].Cmp(bi(1)) == 0 {
					continue
				}
				q.addMono(m, new(big.Int).Mul(c, bi(int64(-sign))))
			}
			nd, err := pc.substPoly(d, best, q)
			if err != nil {
				continue
			}
			if pc.mod != nil {
				nd.reduceMod(pc.mod)
			}
			d = nd
			progress = true
			if d.isZero() {
				return true
			}
			if len(d.coef) <= 600 && pc.spanProve(d, fps) {
				return true
			}
		}
		if !progress {
			break
		}
	}
	return false
}

func (p *Poly) hasVar(x int) bool {
	for _, m := range p.mono {
		if m.degreeOf(x) != nil {
			return true
		}
	}
	return false
}

func (pc *PolyCtx) substPoly(p *Poly, x int, q *Poly) (*Poly, error) {
	r := newPoly()
	pows := []*Poly{polyConst(bi(1)), q}
	for k, c := range p.coef {
		m := p.mono[k]
		d := m.degreeOf(x)
		if d == nil {
			r.addMono(m, c)
			continue
		}
		if !d.IsInt64() || d.Int64() > 8 {
			return nil, fmt.Errorf("fold: high power of a base variable")
		}
		n := int(d.Int64())
		for len(pows) <= n {
			np, err := pc.mul(pows[len(pows)-1], q)
			if err != nil {
				return nil, err
			}
			pows = append(pows, np)
		}
		var rest Mono
		for i, v := range m.vars {
			if v != x {
				rest.vars = append(rest.vars, v)
				rest.exps = append(rest.exps, m.exps[i])
			}
		}
		mp := newPoly()
		mp.addMono(rest, c)
		prod, err := pc.mul(mp, pows[n])
		if err != nil {
			return nil, err
		}
		r.addPoly(prod, bi(1))
	}
	return r, nil
}

// spanProve decides whether d lies in the linear span (over Q, or over Z/m when a
// modulus is given) of the polynomials of the assumed facts, treating monomials as
// independent unknowns. Since every fact polynomial is 0 (resp. ≡ 0), so is d.
func (pc *PolyCtx) spanProve(d *Poly, facts []*Poly) bool {
	return pc.spanProveLimit(d, facts, 400)
}

func (pc *PolyCtx) spanProveLimit(d *Poly, facts []*Poly, sizeLimit int) bool {
	type row map[string]*big.Rat
	toRow := func(p *Poly) row {
		r := row{}
		for k, c := range p.coef {
			r[k] = new(big.Rat).SetInt(c)
		}
		return r
	}
	m := pc.mod
	norm := func(x *big.Rat) *big.Rat {
		if m == nil {
			return x
		}
		// x is integral in modular mode
		return new(big.Rat).SetInt(new(big.Int).Mod(x.Num(), m))
	}
	inv := func(x *big.Rat) *big.Rat {
		if m == nil {
			return new(big.Rat).Inv(x)
		}
		i := new(big.Int).ModInverse(x.Num(), m)
		if i == nil {
			return nil
		}
		return new(big.Rat).SetInt(i)
	}
	type pivotRow struct {
		key string
		r   row
	}
	var basis []pivotRow
	reduce := func(r row) {
		for _, b := range basis {
			c, ok := r[b.key]
			if !ok || c.Sign() == 0 {
				continue
			}
			// r -= c * b.r   (b.r has coefficient 1 at b.key)
			for k, v := range b.r {
				t := new(big.Rat).Mul(c, v)
				cur, ok := r[k]
				if !ok {
					cur = new(big.Rat)
				}
				nv := norm(new(big.Rat).Sub(cur, t))
				if nv.Sign() == 0 {
					delete(r, k)
				} else {
					r[k] = nv
				}
			}
		}
	}
	for _, f := range facts {
		if len(f.coef) == 0 || len(f.coef) > sizeLimit {
			continue
		}
		r := toRow(f)
		reduce(r)
		if len(r) == 0 {
			continue
		}
		// pivot: deterministic choice (largest key) with invertible coefficient
		var keys []string
		for k := range r {
			keys = append(keys, k)
		}
		sort.Strings(keys)
		pk := ""
		var pi *big.Rat
		for i := len(keys) - 1; i >= 0; i-- {
			if iv := inv(r[keys[i]]); iv != nil {
				pk, pi = keys[i], iv
				break
			}
		}
		if pk == "" {
			continue
		}
		for k, v := range r {
			r[k] = norm(new(big.Rat).Mul(v, pi))
		}
		// keep the basis reduced w.r.t. the new pivot
		for _, b := range basis {
			if c, ok := b.r[pk]; ok && c.Sign() != 0 {
				for k, v := range r {
					t := new(big.Rat).Mul(c, v)
					cur, ok := b.r[k]
					if !ok {
						cur = new(big.Rat)
					}
					nv := norm(new(big.Rat).Sub(cur, t))
					if nv.Sign() == 0 {
						delete(b.r, k)
					} else {
						b.r[k] = nv
					}
				}
			}
		}
		basis = append(basis, pivotRow{pk, r})
		if len(basis) > 600 {
			break
		}
	}
	dr := toRow(d)
	for k, v := range dr {
		dr[k] = norm(v)
		if dr[k].Sign() == 0 {
			delete(dr, k)
		}
	}
	reduce(dr)
	return len(dr) == 0
}

func termSize(t *Term, limit int) int {
	seen := map[int]bool{}
	n := 0
	var rec func(t *Term)
	rec = func(t *Term) {
		if n >= limit || seen[t.id] {
			return
		}
		seen[t.id] = true
		n++
		for _, a := range t.args {
			rec(a)
		}
	}
	rec(t)
	return n
}

// divPoly returns the polynomial of floor(x/k) over canonical quotient atoms:
//   floor(floor(x/a)/k)        = floor(x/(a*k))
//   floor((x mod a)/k), k | a  = floor(x/k) - (a/k)*floor(x/a)
//   floor((k*q + r)/k)         = q + floor(r/k)      (q, r from the common split of linear forms)
func (pc *PolyCtx) divPoly(x *Term, k *big.Int, memo map[int]*Poly) (*Poly, error) {
	if x.op == OConst {
		return polyConst(floorDiv(x.k, k)), nil
	}
	if x.op == ODiv {
		return pc.divPoly(x.args[0], new(big.Int).Mul(x.k, k), memo)
	}
	if x.op == OMod && new(big.Int).Mod(x.k, k).Sign() == 0 {
		a, e := pc.divPoly(x.args[0], k, memo)
		if e != nil {
			return nil, e
		}
		b, e := pc.divPoly(x.args[0], x.k, memo)
		if e != nil {
			return nil, e
		}
		p := newPoly()
		p.addPoly(a, bi(1))
		p.addPoly(b, new(big.Int).Neg(new(big.Int).Div(x.k, k)))
		return p, nil
	}
	// cancel a common factor: floor(g*x' / (g*k')) = floor(x'/k')
	{
		l := linOf(x)
		g := new(big.Int).Set(k)
		if l.c.Sign() != 0 {
			g.GCD(nil, nil, g, new(big.Int).Abs(l.c))
		}
		for _, c := range l.coefs {
			g.GCD(nil, nil, g, new(big.Int).Abs(c))
		}
		if g.Cmp(bi(1)) > 0 && len(l.coefs) > 0 {
			n := newLin()
			for id, c := range l.coefs {
				n.addAtom(l.atoms[id], new(big.Int).Div(c, g))
			}
			n.c = new(big.Int).Div(l.c, g)
			nk := new(big.Int).Div(k, g)
			if nk.Cmp(bi(1)) == 0 {
				return pc.Of(n.build(), memo)
			}
			return pc.divPoly(n.build(), nk, memo)
		}
	}
	out, rest, pulled := splitLin(linOf(x), k)
	if pulled {
		p, e := pc.Of(out.build(), memo)
		if e != nil {
			return nil, e
		}
		rt := rest.build()
		r := newPoly()
		r.addPoly(p, bi(1))
		if rt.op == OConst {
			r.addMono(Mono{}, floorDiv(rt.k, k))
		} else if rt.op == ODiv || (rt.op == OMod && new(big.Int).Mod(rt.k, k).Sign() == 0) {
			q, e := pc.divPoly(rt, k, memo)
			if e != nil {
				return nil, e
			}
			r.addPoly(q, bi(1))
		} else {
			r.addPoly(pc.atom(TS.intern(ODiv, SInt, new(big.Int).Set(k), "", rt)), bi(1))
		}
		return r, nil
	}
	return pc.atom(TS.intern(ODiv, SInt, new(big.Int).Set(k), "", x)), nil
}

// substPoly2 substitutes variables in t. Definitions derived from exact equalities (exact)
// may be used anywhere; definitions derived from congruences (congr) only in polynomial
// positions (under +, *, ^), because only there a congruent value may replace a variable.
func substRestricted(t *Term, exact, congr map[int]*Term, polyPos bool, memoP, memoN map[int]*Term) *Term {
	if r, ok := exact[t.id]; ok {
		return r
	}
	if polyPos {
		if r, ok := congr[t.id]; ok {
			return r
		}
	}
	if len(t.args) == 0 {
		return t
	}
	memo := memoN
	if polyPos {
		memo = memoP
	}
	if r, ok := memo[t.id]; ok {
		return r
	}
	childPoly := polyPos && (t.op == OAdd || t.op == OMul || t.op == OPow)
	args := make([]*Term, len(t.args))
	changed := false
	for i, a := range t.args {
		args[i] = substRestricted(a, exact, congr, childPoly, memoP, memoN)
		if args[i] != a {
			changed = true
		}
	}
	r := t
	if changed {
		r = rebuild(t, args)
	}
	memo[t.id] = r
	return r
}

// algNormalSpan: every fact that can serve as the definition of its newest atom is turned
// into a substitution (latest fact first); goal and remaining facts are normalised by these
// substitutions and the goal is then sought in the linear span of the normalised facts.
func algNormalSpan(flat []*Term, gx *Term, gm *big.Int) (bool, string) {
	pc := NewPolyCtx(gm)
	exact := map[int]*Term{}
	congr := map[int]*Term{}
	var residual []*Term
	defined := map[int]bool{}
	for i := len(flat) - 1; i >= 0; i-- {
		x, m, ok := asCongruence(flat[i])
		if !ok {
			continue
		}
		if m != nil && (gm == nil || new(big.Int).Mod(m, gm).Sign() != 0) {
			continue
		}
		if termSize(x, 3000) >= 3000 {
			continue
		}
		e, err := pc.Of(x, map[int]*Poly{})
		if err != nil || e.isZero() {
			continue
		}
		best := -1
		var bestInv *big.Int
		for k, co := range e.coef {
			mo := e.mono[k]
			if len(mo.vars) != 1 || mo.exps[0].Cmp(bi(1)) != 0 {
				continue
			}
			xv := mo.vars[0]
			cnt := 0
			for _, m2 := range e.mono {
				if m2.degreeOf(xv) != nil {
					cnt++
				}
			}
			if cnt != 1 {
				continue
			}
			at := pc.atoms[xv]
			if at.op != OVar && at.op != OSelect && at.op != OUF {
				continue
			}
			if gm != nil && new(big.Int).Add(co, bi(1)).Cmp(gm) == 0 {
				co = bi(-1)
			}
			if co.CmpAbs(bi(1)) != 0 {
				continue
			}
			if xv > best {
				best, bestInv = xv, new(big.Int).Set(co)
			}
		}
		if best < 0 || defined[best] {
			residual = append(residual, x)
			continue
		}
		defined[best] = true
		rest := newPoly()
		for k, co := range e.coef {
			mo := e.mono[k]
			if len(mo.vars) == 1 && mo.vars[0] == best {
				continue
			}
			rest.addMono(mo, co)
		}
		q := newPoly()
		q.addPoly(rest, new(big.Int).Neg(bestInv))
		if gm != nil {
			q.reduceMod(gm)
		}
		rhs := pc.toTerm(q)
		congr[best] = rhs
	}
	normalise := func(t *Term) *Term {
		t = stripMod(t, gm, map[int]*Term{})
		for iter := 0; iter < 200; iter++ {
			n := substRestricted(t, exact, congr, true, map[int]*Term{}, map[int]*Term{})
			if n == t {
				return t
			}
			t = n
		}
		return t
	}
	pc.limit = 4000000
	g := normalise(gx)
	d, err := pc.Of(g, map[int]*Poly{})
	if err == nil {
		d, err = pc.fold(d)
	}
	if err != nil {
		return false, "normal-span: " + err.Error()
	}
	if d.isZero() {
		return true, fmt.Sprintf("normal form 0 under %d definitional substitutions", len(exact)+len(congr))
	}
	var fps []*Poly
	for _, r := range residual {
		n := normalise(r)
		fp, err := pc.Of(n, map[int]*Poly{})
		if err != nil {
			continue
		}
		if fp, err = pc.fold(fp); err == nil && !fp.isZero() && len(fp.coef) <= 200000 {
			fps = append(fps, fp)
		}
	}
	if os.Getenv("GOVC_DEBUG") != "" {
		fmt.Fprintf(os.Stderr, "alg3: goal poly %d monomials, %d residual facts, %d exact defs, %d congr defs\n", len(d.coef), len(fps), len(exact), len(congr))
		fmt.Fprintf(os.Stderr, "alg3: goal: %s\n", pc.String(d)[:min(len(pc.String(d)), 1500)])
		for _, fp := range fps {
			st := pc.String(fp)
			fmt.Fprintf(os.Stderr, "alg3: fact(%d): %s\n", len(fp.coef), st[:min(len(st), 600)])
		}
	}
	if len(fps) > 0 && pc.spanProveBig(d, fps) {
		return true, fmt.Sprintf("in the span of %d normalised facts (%d definitional substitutions)", len(fps), len(exact)+len(congr))
	}
	return false, "normal-span: no"
}

// spanProveBig is spanProve without the per-fact size limit.
func (pc *PolyCtx) spanProveBig(d *Poly, facts []*Poly) bool {
	return pc.spanProveLimit(d, facts, 1<<30)
}

func min(a, b int) int {
	if a < b {
		return a
	}
	return b
}

// stripMod replaces, in polynomial positions, Mod(x, k) by x when the goal modulus divides k
// (Mod(x,k) = x - k*floor(x/k) is congruent to x modulo every divisor of k).
func stripMod(t *Term, gm *big.Int, memo map[int]*Term) *Term {
	if gm == nil {
		return t
	}
	if r, ok := memo[t.id]; ok {
		return r
	}
	r := t
	switch t.op {
	case OMod:
		if new(big.Int).Mod(t.k, gm).Sign() == 0 {
			r = stripMod(t.args[0], gm, memo)
		}
	case OAdd, OMul, OPow:
		args := make([]*Term, len(t.args))
		changed := false
		for i, a := range t.args {
			args[i] = stripMod(a, gm, memo)
			if args[i] != a {
				changed = true
			}
		}
		if changed {
			r = rebuild(t, args)
		}
	}
	memo[t.id] = r
	return r
}

// relevantFacts keeps the facts connected to the goal through shared free variables / UF atoms
// within the given number of rounds.
func relevantFacts(flat []*Term, goal *Term, rounds int) []*Term {
	symsOf := func(t *Term) map[int]bool {
		m := map[int]bool{}
		walk(t, map[int]bool{}, func(x *Term) {
			if x.op == OVar || (x.op == OUF && len(x.args) > 0) || x.op == OSelect {
				m[x.id] = true
			}
		})
		return m
	}
	cur := symsOf(goal)
	taken := make([]bool, len(flat))
	fs := make([]map[int]bool, len(flat))
	var out []*Term
	for r := 0; r < rounds; r++ {
		added := false
		for i, f := range flat {
			if taken[i] {
				continue
			}
			if _, _, ok := asCongruence(f); !ok {
				taken[i] = true
				continue
			}
			if fs[i] == nil {
				fs[i] = symsOf(f)
			}
			hit := false
			for id := range fs[i] {
				if cur[id] {
					hit = true
					break
				}
			}
			if hit {
				taken[i] = true
				out = append(out, f)
				added = true
			}
		}
		if !added {
			break
		}
		for i, f := range flat {
			_ = f
			if taken[i] && fs[i] != nil {
				for id := range fs[i] {
					cur[id] = true
				}
			}
		}
	}
	return out
}
