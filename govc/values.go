package main

import (
	"fmt"
	"go/types"
	"math/big"

	"golang.org/x/tools/go/ssa"
)

var wordBits = 64

// ---------- values ----------

type Value interface{}

type PathEl struct {
	Field int
	Idx   *Term // non-nil: array index
}

type Region struct {
	id     int
	name   string
	typ    types.Type
	kind   string // param, local, global, heap, const
	global *ssa.Global
}

type PtrV struct {
	R    *Region // nil => nil pointer
	Path []PathEl
	// word view of a byte array obtained through unsafe.Pointer: View = bytes per word,
	// Words = number of words, Word = index of the designated word (nil: the whole view)
	View  int
	Words int
	Word  *Term
}

type SliceV struct {
	R    *Region // nil => nil slice
	Path []PathEl // path to the backing array cell inside R
	Off  *Term
	Len  *Term
	Cap  *Term
	Elem types.Type
}

type AggV struct {
	T types.Type
	C Cell
}

type ClosureV struct {
	Fn   *ssa.Function
	Bind []Value
}

type IfaceV struct {
	Dyn types.Type // nil => nil interface
	V   Value
	Sym *Term // for opaque/symbolic interface values: identity token
}

type StringV struct {
	Const *string
	Arr   *Term // symbolic bytes
	Len   *Term
}

type TupleV []Value

type OpaqueV struct{ What string }

type NilV struct{}

// HashV models a crypto/sha512 digest object: Acc is the abstract byte
// sequence absorbed since the last Reset.
type HashV struct{ Cell *Region }

// ---------- cells (immutable trees) ----------

type Cell interface{}

type ArrCell struct{ Elems []Cell }
type StructCell struct{ Fields []Cell }
type SymArrCell struct {
	Arr  *Term
	N    *Term // number of elements
	Elem types.Type
}

func intInfo(t types.Type) (bits int, signed bool, ok bool) {
	b, isB := t.Underlying().(*types.Basic)
	if !isB {
		return 0, false, false
	}
	switch b.Kind() {
	case types.Int8:
		return 8, true, true
	case types.Int16:
		return 16, true, true
	case types.Int32:
		return 32, true, true
	case types.Int64:
		return 64, true, true
	case types.Int:
		return wordBits, true, true
	case types.Uint8:
		return 8, false, true
	case types.Uint16:
		return 16, false, true
	case types.Uint32:
		return 32, false, true
	case types.Uint64:
		return 64, false, true
	case types.Uint, types.Uintptr:
		return wordBits, false, true
	case types.UntypedInt, types.UntypedRune:
		return wordBits, true, true
	}
	return 0, false, false
}

func isBool(t types.Type) bool {
	b, ok := t.Underlying().(*types.Basic)
	return ok && (b.Kind() == types.Bool || b.Kind() == types.UntypedBool)
}

func typeRange(t types.Type) (lo, hi *big.Int, ok bool) {
	bits, signed, ok := intInfo(t)
	if !ok {
		return nil, nil, false
	}
	if signed {
		h := pow2(bits - 1)
		return new(big.Int).Neg(h), new(big.Int).Sub(h, bi(1)), true
	}
	return bi(0), new(big.Int).Sub(pow2(bits), bi(1)), true
}

func isScalarType(t types.Type) bool {
	switch t.Underlying().(type) {
	case *types.Array, *types.Struct:
		return false
	}
	return true
}

// zeroValue returns the zero Value of a scalar-like type.
func zeroValue(t types.Type) Value {
	switch u := t.Underlying().(type) {
	case *types.Basic:
		if _, _, ok := intInfo(t); ok {
			return ConstI(0)
		}
		if isBool(t) {
			return False()
		}
		if u.Kind() == types.String {
			s := ""
			return StringV{Const: &s}
		}
		if u.Kind() == types.UnsafePointer {
			return PtrV{}
		}
	case *types.Pointer:
		return PtrV{}
	case *types.Slice:
		return SliceV{Elem: u.Elem()}
	case *types.Interface:
		return IfaceV{}
	case *types.Signature:
		return NilV{}
	case *types.Array, *types.Struct:
		return AggV{T: t, C: zeroCell(t)}
	}
	return OpaqueV{What: "zero " + t.String()}
}

// flatArrays enables the flattened symbolic representation of long arrays of aggregates
// (one Int->Int array indexed by element*leafCount+leaf); off while package initialisers run.
var flatArrays = true

const flatThreshold = 64

func isAggType(t types.Type) bool {
	switch t.Underlying().(type) {
	case *types.Array, *types.Struct:
		return true
	}
	return false
}

// leafCount: number of scalar leaves of a value of type t (0 if it contains reference types)
func leafCount(t types.Type) int {
	switch u := t.Underlying().(type) {
	case *types.Array:
		return int(u.Len()) * leafCount(u.Elem())
	case *types.Struct:
		n := 0
		for i := 0; i < u.NumFields(); i++ {
			c := leafCount(u.Field(i).Type())
			if c == 0 {
				return 0
			}
			n += c
		}
		return n
	case *types.Basic:
		if _, _, ok := intInfo(t); ok || isBool(t) {
			return 1
		}
	}
	return 0
}

func useFlat(u *types.Array) bool {
	if !flatArrays {
		return false
	}
	if u.Len() >= flatThreshold && isAggType(u.Elem()) && leafCount(u.Elem()) > 0 {
		return true
	}
	// long arrays of scalars (scratch buffers): plain symbolic arrays
	return u.Len() >= 512 && leafCount(u.Elem()) == 1
}

// flattenCell lists the scalar leaves of an aggregate cell in layout order.
func flattenCell(c Cell, out *[]*Term) {
	switch x := c.(type) {
	case *ArrCell:
		for _, e := range x.Elems {
			flattenCell(e, out)
		}
	case *StructCell:
		for _, f := range x.Fields {
			flattenCell(f, out)
		}
	case AggV:
		flattenCell(x.C, out)
	case *Term:
		*out = append(*out, x)
	default:
		fail("flattenCell: unsupported cell %T", c)
	}
}

// buildCell builds an aggregate cell of type t from leaves leaf(0), leaf(1), ...
func buildCell(t types.Type, next *int, leaf func(i int, lt types.Type) *Term) Cell {
	switch u := t.Underlying().(type) {
	case *types.Array:
		es := make([]Cell, u.Len())
		for i := range es {
			es[i] = buildCell(u.Elem(), next, leaf)
		}
		return &ArrCell{Elems: es}
	case *types.Struct:
		fs := make([]Cell, u.NumFields())
		for i := range fs {
			fs[i] = buildCell(u.Field(i).Type(), next, leaf)
		}
		return &StructCell{Fields: fs}
	}
	v := leaf(*next, t)
	*next++
	return v
}

const zeroArrPrefix = "zeroarr"

func zeroCell(t types.Type) Cell {
	switch u := t.Underlying().(type) {
	case *types.Array:
		if useFlat(u) || (flatArrays && u.Len() >= 256 && leafCount(u.Elem()) == 1) {
			// (local scratch arrays of 256 or more scalars are symbolic arrays)
			return &SymArrCell{Arr: FreshVar(zeroArrPrefix, SArr), N: ConstI(u.Len()), Elem: u.Elem()}
		}
		n := int(u.Len())
		es := make([]Cell, n)
		z := zeroCell(u.Elem())
		for i := range es {
			es[i] = z
		}
		return &ArrCell{Elems: es}
	case *types.Struct:
		fs := make([]Cell, u.NumFields())
		for i := range fs {
			fs[i] = zeroCell(u.Field(i).Type())
		}
		return &StructCell{Fields: fs}
	}
	return zeroValue(t)
}

const symArrThreshold = 1 << 20

// freshCell builds a symbolic cell of type t; scalar leaves are fresh
// variables constrained to their type range (facts appended to *facts).
func freshCell(t types.Type, prefix string, facts *[]*Term) Cell {
	switch u := t.Underlying().(type) {
	case *types.Array:
		if useFlat(u) {
			return &SymArrCell{Arr: FreshVar(prefix+".flat", SArr), N: ConstI(u.Len()), Elem: u.Elem()}
		}
		n := int(u.Len())
		es := make([]Cell, n)
		for i := range es {
			es[i] = freshCell(u.Elem(), fmt.Sprintf("%s.%d", prefix, i), facts)
		}
		return &ArrCell{Elems: es}
	case *types.Struct:
		fs := make([]Cell, u.NumFields())
		for i := range fs {
			fs[i] = freshCell(u.Field(i).Type(), prefix+"."+u.Field(i).Name(), facts)
		}
		return &StructCell{Fields: fs}
	}
	return freshScalar(t, prefix, facts)
}

func freshScalar(t types.Type, prefix string, facts *[]*Term) Value {
	if lo, hi, ok := typeRange(t); ok {
		v := FreshVar(prefix, SInt)
		*facts = append(*facts, Le(Const(lo), v), Le(v, Const(hi)))
		return v
	}
	if isBool(t) {
		return FreshVar(prefix, SBool)
	}
	switch u := t.Underlying().(type) {
	case *types.Basic:
		if u.Kind() == types.String {
			return freshString(prefix, facts)
		}
	case *types.Interface:
		return freshIface(prefix, facts, false)
	}
	if freshHook != nil {
		switch t.Underlying().(type) {
		case *types.Slice, *types.Pointer:
			if v := freshHook(t, prefix, facts); v != nil {
				return v
			}
		}
	}
	return OpaqueV{What: "fresh " + prefix + " " + t.String()}
}

// freshHook creates arbitrary values of reference types (they need a region in the current
// state); installed by the engine while a function is being verified.
var freshHook func(t types.Type, prefix string, facts *[]*Term) Value

func cellEqual(a, b Cell) bool {
	switch x := a.(type) {
	case *ArrCell:
		y, ok := b.(*ArrCell)
		if !ok || len(x.Elems) != len(y.Elems) {
			return false
		}
		if x == y {
			return true
		}
		for i := range x.Elems {
			if !cellEqual(x.Elems[i], y.Elems[i]) {
				return false
			}
		}
		return true
	case *StructCell:
		y, ok := b.(*StructCell)
		if !ok || len(x.Fields) != len(y.Fields) {
			return false
		}
		if x == y {
			return true
		}
		for i := range x.Fields {
			if !cellEqual(x.Fields[i], y.Fields[i]) {
				return false
			}
		}
		return true
	case *SymArrCell:
		y, ok := b.(*SymArrCell)
		return ok && x.Arr == y.Arr && x.N == y.N
	case *Term:
		y, ok := b.(*Term)
		return ok && x == y
	case PtrV:
		y, ok := b.(PtrV)
		return ok && ptrEqual(x, y)
	case IfaceV:
		y, ok := b.(IfaceV)
		return ok && x.Dyn == y.Dyn && x.Sym == y.Sym && cellEqual(x.V, y.V)
	case SliceV:
		y, ok := b.(SliceV)
		return ok && x.R == y.R && x.Off == y.Off && x.Len == y.Len
	case ClosureV:
		y, ok := b.(ClosureV)
		return ok && x.Fn == y.Fn
	case *LazySlices:
		y, ok := b.(*LazySlices)
		return ok && x == y
	case StringV:
		y, ok := b.(StringV)
		return ok && x.Const == y.Const && x.Arr == y.Arr && x.Len == y.Len
	case HashV:
		y, ok := b.(HashV)
		return ok && x.Cell == y.Cell
	case OpaqueV, NilV, nil:
		return true
	}
	return false
}

func ptrEqual(a, b PtrV) bool {
	if a.R != b.R || len(a.Path) != len(b.Path) {
		return false
	}
	for i := range a.Path {
		if a.Path[i].Field != b.Path[i].Field {
			return false
		}
		if (a.Path[i].Idx == nil) != (b.Path[i].Idx == nil) {
			return false
		}
		if a.Path[i].Idx != nil && a.Path[i].Idx != b.Path[i].Idx {
			return false
		}
	}
	return true
}

// pathRel: 0 = identical, 1 = provably disjoint, 2 = one contains the other / unknown
func pathRel(a, b PtrV) int {
	if a.R != b.R {
		return 1
	}
	n := len(a.Path)
	if len(b.Path) < n {
		n = len(b.Path)
	}
	for i := 0; i < n; i++ {
		pa, pb := a.Path[i], b.Path[i]
		if pa.Idx == nil && pb.Idx == nil {
			if pa.Field != pb.Field {
				return 1
			}
			continue
		}
		if pa.Idx != nil && pb.Idx != nil {
			e := Eq(pa.Idx, pb.Idx)
			if e.IsFalse() {
				return 1
			}
			if e.IsTrue() {
				continue
			}
			return 2
		}
		return 2
	}
	if len(a.Path) == len(b.Path) {
		return 0
	}
	return 2
}

// pathDistinctCond: for two pointers into the same region whose paths agree up to a pair of
// symbolic indices, the condition under which they designate different elements (nil: not of that shape).
func pathDistinctCond(a, b PtrV) *Term {
	if a.R != b.R {
		return nil
	}
	n := len(a.Path)
	if len(b.Path) < n {
		n = len(b.Path)
	}
	for i := 0; i < n; i++ {
		pa, pb := a.Path[i], b.Path[i]
		if pa.Idx == nil && pb.Idx == nil {
			if pa.Field != pb.Field {
				return nil
			}
			continue
		}
		if pa.Idx != nil && pb.Idx != nil {
			e := Eq(pa.Idx, pb.Idx)
			if e.IsTrue() {
				continue
			}
			return Not(e)
		}
		return nil
	}
	return nil
}

func (p PtrV) String() string {
	if p.R == nil {
		return "nil"
	}
	s := "&" + p.R.name
	for _, e := range p.Path {
		if e.Idx != nil {
			s += "[" + e.Idx.String() + "]"
		} else {
			s += fmt.Sprintf(".%d", e.Field)
		}
	}
	return s
}

func appendPath(p []PathEl, e PathEl) []PathEl {
	n := make([]PathEl, len(p)+1)
	copy(n, p)
	n[len(p)] = e
	return n
}
