package main

// Replay of a counterexample on the real code: the solver's (or the sampler's) values for the
// function's inputs are written into a generated in-package Go test, which is compiled together
// with /repo's current sources through `go test -overlay` (nothing is written into /repo) and
// run; the outputs of the real function are read back and the contract's postconditions are
// evaluated on these concrete values. A violation counts as replayed only if the real code
// panics where it must not, or a postcondition is false on the real outputs.

import (
	"encoding/json"
	"fmt"
	"go/types"
	"math/big"
	"os"
	"os/exec"
	"path/filepath"
	"sort"
	"strings"
	"time"

	"golang.org/x/tools/go/ssa"
)

type leaf struct {
	Expr string     // Go expression denoting the leaf, relative to the parameter variable
	T    types.Type // scalar type
	Var  *Term      // symbolic input variable (nil for SymArr-backed slices)
}

// enumerate scalar leaves of a value of type t rooted at expression e, alongside the symbolic cell.
func enumLeaves(e string, t types.Type, c Cell, out *[]leaf) bool {
	switch u := t.Underlying().(type) {
	case *types.Array:
		ac, ok := c.(*ArrCell)
		if !ok {
			return false
		}
		for i := range ac.Elems {
			if !enumLeaves(fmt.Sprintf("%s[%d]", e, i), u.Elem(), ac.Elems[i], out) {
				return false
			}
		}
		return true
	case *types.Struct:
		sc, ok := c.(*StructCell)
		if !ok {
			return false
		}
		for i := range sc.Fields {
			if !enumLeaves(e+"."+u.Field(i).Name(), u.Field(i).Type(), sc.Fields[i], out) {
				return false
			}
		}
		return true
	case *types.Basic:
		tm, ok := c.(*Term)
		if !ok {
			return false
		}
		*out = append(*out, leaf{Expr: e, T: t, Var: tm})
		return true
	}
	return false
}

type replayParam struct {
	Name   string
	T      types.Type
	Kind   string // "ptr", "slice", "scalar"
	Leaves []leaf // for ptr
	Region *Region
	LenVar, CapVar, ArrName string // for slices
	Var    *Term                 // for scalars
	Same   string                // aliases another parameter
}

type ReplayInfo struct {
	Fn      *ssa.Function
	Params  []replayParam
	Config  BuildConfig
}

func typeString(t types.Type, pkg *types.Package) string {
	return types.TypeString(t, func(p *types.Package) string {
		if p == pkg {
			return ""
		}
		return p.Name()
	})
}

func modelInt(m map[string]string, name string, def *big.Int) *big.Int {
	if v, ok := m[name]; ok {
		if n, ok := new(big.Int).SetString(v, 10); ok {
			return n
		}
		if v == "true" {
			return bi(1)
		}
		if v == "false" {
			return bi(0)
		}
	}
	return def
}

// buildReplay prepares the description needed to replay a model for fn (parameters as created by VerifyFunction).
func (en *Engine) buildReplay(fn *ssa.Function, st *State, env map[string]Value, cfg BuildConfig) *ReplayInfo {
	ri := &ReplayInfo{Fn: fn, Config: cfg}
	seen := map[*Region]string{}
	for _, p := range fn.Params {
		rp := replayParam{Name: p.Name(), T: p.Type()}
		switch v := env[p.Name()].(type) {
		case PtrV:
			rp.Kind = "ptr"
			rp.Region = v.R
			if other, ok := seen[v.R]; ok {
				rp.Same = other
			} else if v.R != nil {
				seen[v.R] = p.Name()
				et := p.Type().Underlying().(*types.Pointer).Elem()
				if v.R.kind == "global" {
					rp.Kind = "global"
				} else if !enumLeaves("(*"+p.Name()+")", et, st.mem[v.R], &rp.Leaves) {
					return nil
				}
			}
		case SliceV:
			rp.Kind = "slice"
			sa, ok := st.mem[v.R].(*SymArrCell)
			if !ok || sa.Arr.op != OVar {
				return nil
			}
			rp.ArrName = sa.Arr.name
			rp.LenVar, rp.CapVar = p.Name()+".len", p.Name()+".cap"
		case *Term:
			rp.Kind = "scalar"
			rp.Var = v
		default:
			return nil
		}
		ri.Params = append(ri.Params, rp)
	}
	return ri
}

func goLiteral(v *big.Int, t types.Type) string {
	if isBool(t) {
		if v.Sign() != 0 {
			return "true"
		}
		return "false"
	}
	return v.String()
}

// genTest writes the test source for a model.
func (ri *ReplayInfo) genTest(m map[string]string) (string, bool) {
	fn := ri.Fn
	pkg := fn.Pkg.Pkg
	var sb strings.Builder
	fmt.Fprintf(&sb, "package %s\n\nimport (\n\t\"fmt\"\n\t\"testing\"\n)\n\nfunc TestGovcReplay(t *testing.T) {\n", pkg.Name())
	var args []string
	var dumps []string
	for _, p := range ri.Params {
		switch p.Kind {
		case "ptr":
			et := p.T.Underlying().(*types.Pointer).Elem()
			if p.Same != "" {
				fmt.Fprintf(&sb, "\t%s := %s\n", p.Name, p.Same)
			} else {
				fmt.Fprintf(&sb, "\t%s := new(%s)\n", p.Name, typeString(et, pkg))
				for _, l := range p.Leaves {
					if l.Var == nil {
						continue
					}
					val := bi(0)
					if l.Var.op == OConst {
						val = l.Var.k
					} else if l.Var.op == OVar {
						val = modelInt(m, l.Var.name, bi(0))
					}
					if val.Sign() != 0 {
						fmt.Fprintf(&sb, "\t%s = %s\n", l.Expr, goLiteral(val, l.T))
					}
				}
				for _, l := range p.Leaves {
					dumps = append(dumps, l.Expr)
				}
			}
			args = append(args, p.Name)
		case "global":
			return "", false
		case "slice":
			ln := modelInt(m, p.LenVar, bi(0))
			cp := modelInt(m, p.CapVar, ln)
			if cp.Cmp(ln) < 0 {
				cp = ln
			}
			if !cp.IsInt64() || cp.Int64() > 1<<20 {
				return "", false
			}
			fmt.Fprintf(&sb, "\t%s := make(%s, %d, %d)\n", p.Name, typeString(p.T, pkg), ln.Int64(), cp.Int64())
			for i := int64(0); i < ln.Int64(); i++ {
				v := modelInt(m, fmt.Sprintf("%s[%d]", p.ArrName, i), bi(0))
				if v.Sign() != 0 {
					fmt.Fprintf(&sb, "\t%s[%d] = %s\n", p.Name, i, v.String())
				}
				dumps = append(dumps, fmt.Sprintf("%s[%d]", p.Name, i))
			}
			args = append(args, p.Name)
		case "scalar":
			v := bi(0)
			if p.Var.op == OConst {
				v = p.Var.k
			} else {
				v = modelInt(m, p.Var.name, bi(0))
			}
			fmt.Fprintf(&sb, "\tvar %s %s = %s\n", p.Name, typeString(p.T, pkg), goLiteral(v, p.T))
			args = append(args, p.Name)
		}
	}
	sb.WriteString("\tdefer func() {\n\t\tif r := recover(); r != nil {\n\t\t\tfmt.Printf(\"GOVC-PANIC %v\\n\", r)\n\t\t}\n\t}()\n")
	call := ""
	recv := ""
	if fn.Signature.Recv() != nil {
		recv = args[0] + "."
		args = args[1:]
	}
	call = fmt.Sprintf("%s%s(%s)", recv, fn.Name(), strings.Join(args, ", "))
	nres := fn.Signature.Results().Len()
	switch nres {
	case 0:
		fmt.Fprintf(&sb, "\t%s\n", call)
	default:
		var rs []string
		for i := 0; i < nres; i++ {
			rs = append(rs, fmt.Sprintf("r%d", i))
		}
		fmt.Fprintf(&sb, "\t%s := %s\n", strings.Join(rs, ", "), call)
		for i := 0; i < nres; i++ {
			fmt.Fprintf(&sb, "\tfmt.Printf(\"GOVC-RES %d %%v\\n\", r%d)\n", i, i)
		}
	}
	for _, d := range dumps {
		fmt.Fprintf(&sb, "\tfmt.Printf(\"GOVC-OUT %s %%v\\n\", %s)\n", d, d)
	}
	sb.WriteString("}\n")
	return sb.String(), true
}

type ReplayOutcome struct {
	Ran      bool
	Cmd      string
	Log      string
	Panicked bool
	Outs     map[string]string
	Results  map[int]string
}

// runReplay compiles and runs the generated test against /repo through an overlay.
func runReplay(repo string, ri *ReplayInfo, src string, workdir string) ReplayOutcome {
	out := ReplayOutcome{Outs: map[string]string{}, Results: map[int]string{}}
	pkgPath := ri.Fn.Pkg.Pkg.Path()
	rel := strings.TrimPrefix(strings.TrimPrefix(pkgPath, "github.com/oasisprotocol/ed25519"), "/")
	os.MkdirAll(workdir, 0o755)
	testFile := filepath.Join(workdir, "zz_govc_replay_test.go")
	if err := os.WriteFile(testFile, []byte(src), 0o644); err != nil {
		out.Log = err.Error()
		return out
	}
	ov := map[string]map[string]string{"Replace": {filepath.Join(repo, rel, "zz_govc_replay_test.go"): testFile}}
	ovb, _ := json.Marshal(ov)
	ovFile := filepath.Join(workdir, "overlay.json")
	os.WriteFile(ovFile, ovb, 0o644)
	args := []string{"test", "-overlay", ovFile, "-vet=off", "-count=1", "-timeout", "60s", "-run", "^TestGovcReplay$"}
	if len(ri.Config.Tags) > 0 {
		args = append(args, "-tags", strings.Join(ri.Config.Tags, ","))
	}
	args = append(args, "-v", "./"+rel)
	cmd := exec.Command("go", args...)
	cmd.Dir = repo
	cmd.Env = append(os.Environ(), "GOFLAGS=-mod=mod", "GOPROXY=off", "GOSUMDB=off", "GOTOOLCHAIN=local")
	if ri.Config.GOARCH != "" {
		cmd.Env = append(cmd.Env, "GOARCH="+ri.Config.GOARCH)
	}
	out.Cmd = "cd " + repo + " && go " + strings.Join(args, " ")
	done := make(chan struct{})
	var b []byte
	go func() { b, _ = cmd.CombinedOutput(); close(done) }()
	select {
	case <-done:
	case <-time.After(180 * time.Second):
		if cmd.Process != nil {
			cmd.Process.Kill()
		}
		out.Log = "replay timed out"
		return out
	}
	out.Log = string(b)
	for _, ln := range strings.Split(out.Log, "\n") {
		ln = strings.TrimSpace(ln)
		switch {
		case strings.HasPrefix(ln, "GOVC-PANIC"):
			out.Panicked = true
			out.Ran = true
		case strings.HasPrefix(ln, "GOVC-OUT "):
			f := strings.SplitN(ln[9:], " ", 2)
			if len(f) == 2 {
				out.Outs[f[0]] = f[1]
				out.Ran = true
			}
		case strings.HasPrefix(ln, "GOVC-RES "):
			f := strings.SplitN(ln[9:], " ", 2)
			if len(f) == 2 {
				var i int
				fmt.Sscanf(f[0], "%d", &i)
				out.Results[i] = f[1]
				out.Ran = true
			}
		}
	}
	if strings.Contains(out.Log, "--- PASS") || strings.Contains(out.Log, "--- FAIL") {
		out.Ran = true
	}
	return out
}

// checkPostsConcrete evaluates the contract's postconditions on the real outputs.
func (en *Engine) checkPostsConcrete(ri *ReplayInfo, fc *FuncContract, pc *PkgContracts, m map[string]string, ro ReplayOutcome) (violated []string, undecided []string) {
	defer func() {
		if r := recover(); r != nil {
			if ee, ok := r.(execError); ok {
				undecided = append(undecided, "evaluation error: "+ee.msg)
				return
			}
			panic(r)
		}
	}()
	fn := ri.Fn
	oldMem := map[*Region]Cell{}
	newMem := map[*Region]Cell{}
	env := map[string]Value{}
	var build func(t types.Type, e string, get func(expr string) (*big.Int, bool)) Cell
	build = func(t types.Type, e string, get func(expr string) (*big.Int, bool)) Cell {
		switch u := t.Underlying().(type) {
		case *types.Array:
			es := make([]Cell, u.Len())
			for i := range es {
				es[i] = build(u.Elem(), fmt.Sprintf("%s[%d]", e, i), get)
			}
			return &ArrCell{es}
		case *types.Struct:
			fs := make([]Cell, u.NumFields())
			for i := range fs {
				fs[i] = build(u.Field(i).Type(), e+"."+u.Field(i).Name(), get)
			}
			return &StructCell{fs}
		}
		v, ok := get(e)
		if !ok {
			v = bi(0)
		}
		if isBool(t) {
			return BoolT(v.Sign() != 0)
		}
		return Const(v)
	}
	regOf := map[string]*Region{}
	for _, p := range ri.Params {
		switch p.Kind {
		case "ptr":
			if p.Same != "" {
				env[p.Name] = PtrV{R: regOf[p.Same]}
				continue
			}
			et := p.T.Underlying().(*types.Pointer).Elem()
			r := en.newRegion(p.Name, et, "param")
			regOf[p.Name] = r
			inVals := map[string]*big.Int{}
			for _, l := range p.Leaves {
				if l.Var != nil && l.Var.op == OVar {
					inVals[l.Expr] = modelInt(m, l.Var.name, bi(0))
				} else if l.Var != nil && l.Var.op == OConst {
					inVals[l.Expr] = l.Var.k
				}
			}
			oldMem[r] = build(et, "(*"+p.Name+")", func(e string) (*big.Int, bool) { v, ok := inVals[e]; return v, ok })
			newMem[r] = build(et, "(*"+p.Name+")", func(e string) (*big.Int, bool) {
				s, ok := ro.Outs[e]
				if !ok {
					return nil, false
				}
				if s == "true" {
					return bi(1), true
				}
				if s == "false" {
					return bi(0), true
				}
				n, ok := new(big.Int).SetString(s, 10)
				return n, ok
			})
			env[p.Name] = PtrV{R: r}
		case "slice":
			ln := modelInt(m, p.LenVar, bi(0))
			cp := modelInt(m, p.CapVar, ln)
			if cp.Cmp(ln) < 0 {
				cp = ln
			}
			et := p.T.Underlying().(*types.Slice).Elem()
			at := types.NewArray(et, cp.Int64())
			r := en.newRegion(p.Name, at, "param")
			oes := make([]Cell, cp.Int64())
			nes := make([]Cell, cp.Int64())
			for i := range oes {
				oes[i] = Const(modelInt(m, fmt.Sprintf("%s[%d]", p.ArrName, i), bi(0)))
				nes[i] = oes[i]
				if s, ok := ro.Outs[fmt.Sprintf("%s[%d]", p.Name, i)]; ok {
					if n, ok := new(big.Int).SetString(s, 10); ok {
						nes[i] = Const(n)
					}
				}
			}
			oldMem[r] = &ArrCell{oes}
			newMem[r] = &ArrCell{nes}
			env[p.Name] = SliceV{R: r, Off: ConstI(0), Len: Const(ln), Cap: Const(cp), Elem: et}
		case "scalar":
			v := bi(0)
			if p.Var.op == OConst {
				v = p.Var.k
			} else {
				v = modelInt(m, p.Var.name, bi(0))
			}
			if isBool(p.T) {
				env[p.Name] = BoolT(v.Sign() != 0)
			} else {
				env[p.Name] = Const(v)
			}
		}
	}
	st := &State{mem: newMem, bounds: NewBounds(), sideSeen: map[int]bool{}, typed: map[int]bool{}, cutDone: map[int]bool{}}
	sc := &specCtx{en: en, pc: pc, fc: fc, st: st, oldMem: oldMem, env: env, oldEnv: env}
	// results
	nres := fn.Signature.Results().Len()
	for i := 0; i < nres; i++ {
		s := ro.Results[i]
		var v Value
		rt := fn.Signature.Results().At(i).Type()
		switch {
		case isBool(rt):
			v = BoolT(s == "true")
		default:
			if n, ok := new(big.Int).SetString(s, 10); ok {
				v = Const(n)
			}
		}
		if v == nil {
			continue
		}
		if nres == 1 {
			sc.env["result"] = v
		}
		sc.env[fmt.Sprintf("result%d", i)] = v
	}
	for _, e := range fc.Ensures {
		g := func() (t *Term) {
			defer func() {
				if r := recover(); r != nil {
					if _, ok := r.(execError); ok {
						t = nil
						return
					}
					panic(r)
				}
			}()
			return sc.evalBool(e.Expr)
		}()
		switch {
		case g == nil:
			undecided = append(undecided, e.Src)
		case g.IsFalse():
			violated = append(violated, e.Src)
		case g.IsTrue():
		default:
			// try exact evaluation of a closed term
			if r, err := evalTerm(g, &evalEnv{vars: map[string]*big.Int{}, memo: map[int]interface{}{}}); err == nil {
				if !r.(bool) {
					violated = append(violated, e.Src)
				}
			} else {
				undecided = append(undecided, e.Src)
			}
		}
	}
	sort.Strings(violated)
	return
}
