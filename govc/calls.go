package main

import (
	"fmt"
	"go/types"
	"strings"

	"golang.org/x/tools/go/ssa"
)

func (en *Engine) contractOrder() []*PkgContracts {
	var r []*PkgContracts
	for _, p := range pkgOrder {
		if pc, ok := en.contracts[p]; ok {
			r = append(r, pc)
		}
	}
	return r
}

func (en *Engine) contractFor(fn *ssa.Function) (*FuncContract, *PkgContracts) {
	if fn.Pkg == nil {
		return nil, nil
	}
	pc, ok := en.contracts[fn.Pkg.Pkg.Path()]
	if !ok {
		return nil, nil
	}
	key := fn.RelString(fn.Pkg.Pkg)
	if fc, ok := pc.Funcs[key]; ok {
		return fc, pc
	}
	return nil, nil
}

func (en *Engine) lookupGlobal(pkgPath, name string) *ssa.Global {
	p := en.pkgs[pkgPath]
	if p == nil {
		return nil
	}
	if m, ok := p.Members[name]; ok {
		if g, ok := m.(*ssa.Global); ok {
			return g
		}
	}
	return nil
}

func (en *Engine) findAxiom(name string) (*AxiomDecl, *PkgContracts) {
	for _, pc := range en.contractOrder() {
		for i := range pc.Axioms {
			if pc.Axioms[i].Name == name {
				return &pc.Axioms[i], pc
			}
		}
	}
	return nil, nil
}

func (en *Engine) goConst(pkgPath, name string) (Value, bool) {
	p, ok := en.pkgs[pkgPath]
	if !ok {
		return nil, false
	}
	if m, ok := p.Members[name]; ok {
		if c, ok := m.(*ssa.NamedConst); ok {
			return en.constValue(c.Value), true
		}
	}
	return nil, false
}

func calleeName(fn *ssa.Function) string {
	if fn.Pkg != nil {
		return fn.Pkg.Pkg.Path() + "." + fn.RelString(fn.Pkg.Pkg)
	}
	return fn.String()
}

func (en *Engine) execCall(st *State, f *Frame, x *ssa.Call) []*State {
	c := x.Call
	pos := posOf(en, x.Pos())
	var args []Value
	for _, a := range c.Args {
		args = append(args, en.get(st, f, a))
	}
	if c.IsInvoke() {
		recv := en.get(st, f, c.Value)
		return en.execInvoke(st, f, x, recv, c.Method, args, pos)
	}
	switch callee := c.Value.(type) {
	case *ssa.Builtin:
		return en.execBuiltin(st, f, x, callee.Name(), args, pos)
	case *ssa.Function:
		return en.callFunction(st, f, x, callee, nil, args, pos)
	default:
		v := en.get(st, f, c.Value)
		cl, ok := v.(ClosureV)
		if !ok {
			fail("call through %T at %s", v, pos)
		}
		return en.callFunction(st, f, x, cl.Fn, cl.Bind, args, pos)
	}
}

func (en *Engine) execBuiltin(st *State, f *Frame, x *ssa.Call, name string, args []Value, pos string) []*State {
	switch name {
	case "len":
		switch a := args[0].(type) {
		case SliceV:
			if a.R == nil {
				f.env[x] = ConstI(0)
			} else {
				f.env[x] = a.Len
			}
		case StringV:
			if a.Const != nil {
				f.env[x] = ConstI(int64(len(*a.Const)))
			} else {
				f.env[x] = a.Len
			}
		default:
			fail("len of %T", a)
		}
	case "cap":
		a := args[0].(SliceV)
		if a.R == nil {
			f.env[x] = ConstI(0)
		} else {
			f.env[x] = a.Cap
		}
	case "copy":
		f.env[x] = en.doCopy(st, args[0], args[1], pos)
	case "append":
		return en.doAppend(st, f, x, args, pos)
	default:
		fail("unsupported builtin %s at %s", name, pos)
	}
	return nil
}

// doAppend models append(s, t...) for slices of scalars: in place when the capacity suffices
// (the elements behind len(s) are overwritten -- in the caller's memory if s came from the caller),
// otherwise into a fresh array. The capacity of the fresh array is modelled as exactly the new length.
func (en *Engine) doAppend(st *State, f *Frame, x *ssa.Call, args []Value, pos string) []*State {
	s, ok := args[0].(SliceV)
	if !ok {
		fail("append to %T at %s", args[0], pos)
	}
	if len(args) < 2 {
		f.env[x] = s
		return nil
	}
	et := x.Type().Underlying().(*types.Slice).Elem()
	var tLen *Term
	var tVal Value = args[1]
	switch t := args[1].(type) {
	case SliceV:
		if t.R == nil {
			tLen = ConstI(0)
		} else {
			tLen = t.Len
		}
	case StringV:
		if t.Const != nil {
			tLen = ConstI(int64(len(*t.Const)))
		} else {
			tLen = t.Len
		}
	default:
		fail("append of %T at %s", args[1], pos)
	}
	if tLen.IsConst() {
		if n, _ := tLen.ConstInt(); n == 0 {
			f.env[x] = s
			return nil
		}
	}
	sLen := ConstI(0)
	if s.R != nil {
		sLen = s.Len
	}
	sl, ok1 := sLen.ConstInt()
	tl, ok2 := tLen.ConstInt()
	if !ok1 || !ok2 {
		fail("append with symbolic lengths at %s", pos)
	}
	en.externCalls["append: a reallocating append is modelled with capacity == new length"] = true
	realloc := func(rs *State, rf *Frame) {
		ns := en.makeSlice(rs, f.fn.Name()+".append", et, ConstI(sl+tl), ConstI(sl+tl))
		if sl > 0 {
			w := ns
			w.Len = ConstI(sl)
			en.doCopy(rs, w, s, pos)
		}
		w := ns
		w.Off = Add(ns.Off, ConstI(sl))
		w.Len = ConstI(tl)
		en.doCopy(rs, w, tVal, pos)
		rf.env[x] = ns
	}
	if s.R == nil {
		realloc(st, f)
		return nil
	}
	fits := Le(ConstI(sl+tl), s.Cap)
	inplace := func(is *State, ifr *Frame) {
		w := s
		w.Off = Add(s.Off, ConstI(sl))
		w.Len = ConstI(tl)
		en.doCopy(is, w, tVal, pos)
		r := s
		r.Len = ConstI(sl + tl)
		ifr.env[x] = r
	}
	if fits.IsTrue() || en.intervalHolds(st, fits) {
		st.addSide(fits, "append fits the capacity")
		inplace(st, f)
		return nil
	}
	if nf := Not(fits); fits.IsFalse() || en.intervalHolds(st, nf) {
		st.addSide(nf, "append exceeds the capacity")
		realloc(st, f)
		return nil
	}
	en.flushSide(st)
	other := st.clone()
	st.assume(fits)
	st.trace = append(st.trace, pos+": append in place")
	inplace(st, f)
	other.assume(Not(fits))
	other.trace = append(other.trace, pos+": append reallocates")
	realloc(other, other.top())
	en.paths++
	return []*State{other}
}

// doCopy models copy(dst, src) for slices (src may be a string).
func (en *Engine) doCopy(st *State, dstV, srcV Value, pos string) Value {
	dst, ok := dstV.(SliceV)
	if !ok {
		fail("copy into %T", dstV)
	}
	var srcLen *Term
	var srcElem func(i *Term) *Term
	switch s := srcV.(type) {
	case SliceV:
		if s.R == nil {
			return ConstI(0)
		}
		srcLen = s.Len
		srcElem = func(i *Term) *Term { return en.load(st, en.sliceElemPtr(s, i), s.Elem).(*Term) }
	case StringV:
		if s.Const != nil {
			srcLen = ConstI(int64(len(*s.Const)))
			srcElem = func(i *Term) *Term {
				k, _ := i.ConstInt()
				return ConstI(int64((*s.Const)[k]))
			}
		} else {
			srcLen = s.Len
			srcElem = func(i *Term) *Term { return Select(s.Arr, i) }
		}
	default:
		fail("copy from %T", srcV)
	}
	if dst.R == nil {
		return ConstI(0)
	}
	// lengths fixed by the path condition are used as constants
	if iv := st.bounds.Interval(srcLen); srcLen.op != OConst && iv.lo != nil && iv.hi != nil && iv.lo.Cmp(iv.hi) == 0 {
		st.addSide(Eq(srcLen, Const(iv.lo)), "length fixed by the path condition")
		srcLen = Const(iv.lo)
	}
	if iv := st.bounds.Interval(dst.Len); dst.Len.op != OConst && iv.lo != nil && iv.hi != nil && iv.lo.Cmp(iv.hi) == 0 {
		st.addSide(Eq(dst.Len, Const(iv.lo)), "length fixed by the path condition")
		dst.Len = Const(iv.lo)
	}
	// n = min(len(dst), len(src))
	dl, ok1 := dst.Len.ConstInt()
	sl, ok2 := srcLen.ConstInt()
	if ok1 && ok2 {
		n := dl
		if sl < n {
			n = sl
		}
		// read all first (overlap-safe), then write
		vals := make([]*Term, n)
		for i := int64(0); i < n; i++ {
			vals[i] = srcElem(ConstI(i))
		}
		for i := int64(0); i < n; i++ {
			p := en.sliceElemPtr(dst, ConstI(i))
			en.noteWrite(st, p, pos)
			en.store(st, p, vals[i])
		}
		return ConstI(n)
	}
	if ok1 && dl <= 512 {
		// fixed-size destination, symbolic source length: element-wise conditional copy
		n := Ite(Le(srcLen, ConstI(dl)), srcLen, ConstI(dl))
		vals := make([]*Term, dl)
		for i := int64(0); i < dl; i++ {
			old := en.load(st, en.sliceElemPtr(dst, ConstI(i)), dst.Elem).(*Term)
			vals[i] = Ite(Lt(ConstI(i), srcLen), srcElem(ConstI(i)), old)
		}
		for i := int64(0); i < dl; i++ {
			p := en.sliceElemPtr(dst, ConstI(i))
			en.noteWrite(st, p, pos)
			en.store(st, p, vals[i])
		}
		return n
	}
	// general case: destination becomes a fresh array agreeing with the source on the copied range
	return en.symCopy(st, dst, srcLen, srcElem, pos)
}

func (en *Engine) symCopy(st *State, dst SliceV, srcLen *Term, srcElem func(i *Term) *Term, pos string) Value {
	c, _ := en.loadPath(st, en.regionCell(st, dst.R), dst.Path, dst.R.typ)
	sa, ok := c.(*SymArrCell)
	if !ok {
		fail("symbolic-length copy into concrete array at %s", pos)
	}
	n := Ite(Le(srcLen, dst.Len), srcLen, dst.Len)
	na := FreshVar("copy.arr", SArr)
	k := FreshVar("k", SInt)
	inr := And(Le(dst.Off, k), Lt(k, Add(dst.Off, n)))
	st.assume(Forall(k, Ite(inr, Eq(Select(na, k), srcElem(Sub(k, dst.Off))), Eq(Select(na, k), Select(sa.Arr, k)))))
	nc := &SymArrCell{Arr: na, N: sa.N, Elem: sa.Elem}
	en.checkWrite(st, dst.R, dst.Path, dst.Off, n, pos)
	st.mem[dst.R] = en.storePath(st, en.regionCell(st, dst.R), dst.Path, dst.R.typ, nc)
	return n
}

func (en *Engine) callFunction(st *State, f *Frame, x *ssa.Call, fn *ssa.Function, bind []Value, args []Value, pos string) []*State {
	name := calleeName(fn)
	if en.initMode && isInitFunc(fn) && len(args) == 0 && (fn.Pkg == nil || !modulePkg(fn.Pkg.Pkg.Path()) || fn.Name() == "init") {
		f.env[x] = nil // initialisers of other packages run on their own
		return nil
	}
	if r, ok := en.intrinsic(st, f, x, fn, name, args, pos); ok {
		return r
	}
	if fc, pc := en.contractFor(fn); fc != nil && !fc.CTOnly && !en.forceInline[name] && !en.inlineNames[fn.Name()] {
		return en.applyContract(st, f, x, fn, fc, pc, args, pos)
	}
	if fn.Blocks == nil {
		fail("call to %s without body, contract or model at %s", name, pos)
	}
	if fn.Pkg != nil && !modulePkg(fn.Pkg.Pkg.Path()) {
		// an external function without a model: arbitrary results, and it may overwrite whatever
		// its pointer/slice arguments designate. Sound over-approximation; whatever the contract of
		// the function under verification says about those values can then not be proved.
		en.externCalls["UNMODELLED external call "+name+" (arbitrary results, arguments' memory havocked)"] = true
		for _, a := range args {
			switch v := a.(type) {
			case SliceV:
				if v.R != nil {
					en.checkWrite(st, v.R, v.Path, v.Off, v.Len, pos)
					en.havocSlice(st, v)
				}
			case PtrV:
				if v.R != nil {
					en.checkWrite(st, v.R, v.Path, nil, nil, pos)
					var facts []*Term
					_, et := en.loadPath(st, en.regionCell(st, v.R), v.Path, v.R.typ)
					st.mem[v.R] = en.storePath(st, en.regionCell(st, v.R), v.Path, v.R.typ, freshCell(et, v.R.name+".x", &facts))
					for _, fc := range facts {
						st.assume(fc)
					}
				}
			}
		}
		sig := fn.Signature
		switch sig.Results().Len() {
		case 0:
			f.env[x] = nil
		case 1:
			f.env[x] = en.freshValue(st, sig.Results().At(0).Type(), "ext."+fn.Name())
		default:
			var tv TupleV
			for i := 0; i < sig.Results().Len(); i++ {
				tv = append(tv, en.freshValue(st, sig.Results().At(i).Type(), fmt.Sprintf("ext.%s.%d", fn.Name(), i)))
			}
			f.env[x] = tv
		}
		return nil
	}
	if len(st.frames) > en.inlineDepthMax {
		fail("inline depth exceeded at %s calling %s", pos, name)
	}
	en.inlined[name] = true
	nf := &Frame{fn: fn, env: map[ssa.Value]Value{}, retTo: x, visits: map[int]int{}, loopSt: map[int]*loopState{}}
	for i, p := range fn.Params {
		nf.env[p] = args[i]
	}
	for i, fv := range fn.FreeVars {
		nf.env[fv] = bind[i]
	}
	nf.block = fn.Blocks[0]
	st.frames = append(st.frames, nf)
	return nil
}

func modulePkg(path string) bool {
	return strings.HasPrefix(path, "github.com/oasisprotocol/ed25519")
}

// ---------- intrinsics (library functions with built-in exact meaning) ----------

func (en *Engine) intrinsic(st *State, f *Frame, x *ssa.Call, fn *ssa.Function, name string, args []Value, pos string) ([]*State, bool) {
	switch name {
	case "math/bits.Mul64":
		a, b := args[0].(*Term), args[1].(*Term)
		p := Mul(a, b)
		m := pow2(64)
		f.env[x] = TupleV{Div(p, m), Mod(p, m)}
		// product bound lemma (conditional, hence valid irrespective of the bounds' provenance)
		en.productLemma(st, a, b, p)
		return nil, true
	case "math/bits.Add64":
		a, b, c := args[0].(*Term), args[1].(*Term), args[2].(*Term)
		s := Add(a, b, c)
		m := pow2(64)
		iv := st.bounds.Interval(s)
		if !en.noElide && iv.lo != nil && iv.hi != nil && iv.lo.Sign() >= 0 && iv.hi.Cmp(m) < 0 {
			st.addSide(And(Le(ConstI(0), s), Lt(s, Const(m))), "bits.Add64 does not carry out")
			f.env[x] = TupleV{s, ConstI(0)}
		} else {
			f.env[x] = TupleV{Mod(s, m), Div(s, m)}
		}
		return nil, true
	case "encoding/binary.(littleEndian).Uint64", "encoding/binary.(littleEndian).Uint32", "encoding/binary.(littleEndian).Uint16":
		n := map[string]int{"Uint64": 8, "Uint32": 4, "Uint16": 2}[name[strings.LastIndex(name, ".")+1:]]
		s := args[len(args)-1].(SliceV)
		en.require(st, "index", Le(ConstI(int64(n)), en.sliceLen(s)), fmt.Sprintf("binary.LittleEndian.%s: slice has at least %d bytes", name[strings.LastIndex(name, ".")+1:], n), pos)
		if s.R == nil {
			st.done, st.infeasible = true, true
			return nil, true
		}
		var ts []*Term
		for i := 0; i < n; i++ {
			p := en.sliceElemPtr(s, ConstI(int64(i)))
			en.noteRead(st, p, pos)
			b := en.load(st, p, s.Elem).(*Term)
			ts = append(ts, MulC(b, pow2(8*i)))
		}
		f.env[x] = Add(append(ts, ConstI(0))...)
		return nil, true
	case "encoding/binary.(littleEndian).PutUint64", "encoding/binary.(littleEndian).PutUint32":
		n := 8
		if strings.HasSuffix(name, "32") {
			n = 4
		}
		s := args[len(args)-2].(SliceV)
		v := args[len(args)-1].(*Term)
		en.require(st, "index", Le(ConstI(int64(n)), en.sliceLen(s)), fmt.Sprintf("binary.LittleEndian.Put: slice has at least %d bytes", n), pos)
		if s.R == nil {
			st.done, st.infeasible = true, true
			return nil, true
		}
		for i := 0; i < n; i++ {
			p := en.sliceElemPtr(s, ConstI(int64(i)))
			en.noteWrite(st, p, pos)
			en.store(st, p, en.mmod(st, en.mdiv(st, v, pow2(8*i)), pow2(8)))
		}
		f.env[x] = nil
		return nil, true
	}
	return en.intrinsicAPI(st, f, x, fn, name, args, pos)
}

func (en *Engine) sliceLen(s SliceV) *Term {
	if s.R == nil {
		return ConstI(0)
	}
	return s.Len
}

// productLemma adds  (la<=a<=ha & lb<=b<=hb) => lo <= a*b <= hi  with corner products.
func (en *Engine) productLemma(st *State, a, b, p *Term) {
	if p.op != OMul || len(p.args) < 2 && !(len(p.args) == 1 && a == b) {
		// linear after simplification
		if p.op != OMul {
			return
		}
	}
	if st.typed[p.id] {
		return
	}
	ia, ib := st.bounds.Interval(a), st.bounds.Interval(b)
	if ia.lo == nil || ia.hi == nil || ib.lo == nil || ib.hi == nil {
		return
	}
	st.typed[p.id] = true
	pr := mulIval(ia, ib)
	prem := And(Le(Const(ia.lo), a), Le(a, Const(ia.hi)), Le(Const(ib.lo), b), Le(b, Const(ib.hi)))
	st.facts = append(st.facts, Imp(prem, And(Le(Const(pr.lo), p), Le(p, Const(pr.hi)))))
	st.bounds.Set(p, pr.lo, pr.hi)
}

// ---------- contracts at call sites ----------

func (en *Engine) bindParams(fn *ssa.Function, fc *FuncContract, args []Value) map[string]Value {
	if len(fc.Params) != len(fn.Params) {
		fail("contract for %s lists %d parameters, function has %d", calleeName(fn), len(fc.Params), len(fn.Params))
	}
	env := map[string]Value{}
	for i, p := range fn.Params {
		if fc.Params[i] != p.Name() && fc.Params[i] != "_" {
			fail("contract for %s: parameter %d is named %q in the code, %q in the contract", calleeName(fn), i, p.Name(), fc.Params[i])
		}
		env[p.Name()] = args[i]
	}
	return env
}

// aliasPartition computes which pointer parameters coincide among args.
func (en *Engine) aliasPartition(st *State, fn *ssa.Function, args []Value) ([][]string, []string) {
	var problems []string
	type pp struct {
		name string
		p    PtrV
	}
	var ps []pp
	for i, p := range fn.Params {
		if v, ok := args[i].(PtrV); ok && v.R != nil {
			ps = append(ps, pp{p.Name(), v})
		}
	}
	parent := map[string]string{}
	find := func(x string) string {
		for parent[x] != "" && parent[x] != x {
			x = parent[x]
		}
		return x
	}
	for i := range ps {
		for j := i + 1; j < len(ps); j++ {
			rel := pathRel(ps[i].p, ps[j].p)
			if rel == 2 {
				// symbolic element indices: distinct elements if the indices provably differ
				if c := pathDistinctCond(ps[i].p, ps[j].p); c != nil {
					if en.intervalHolds(st, c) {
						st.addSide(c, "distinct array elements")
						rel = 1
					} else {
						en.aliasConds = append(en.aliasConds, c)
						rel = 1
					}
				}
			}
			switch rel {
			case 0:
				a, b := find(ps[i].name), find(ps[j].name)
				if a != b {
					parent[b] = a
				}
			case 2:
				problems = append(problems, fmt.Sprintf("%s and %s may partially overlap", ps[i].name, ps[j].name))
			}
		}
	}
	groups := map[string][]string{}
	for _, p := range ps {
		r := find(p.name)
		groups[r] = append(groups[r], p.name)
	}
	var part [][]string
	for _, p := range ps { // deterministic order
		if g, ok := groups[p.name]; ok && len(g) > 1 && find(p.name) == p.name {
			part = append(part, g)
		}
	}
	// slices against pointers / slices: same region with non-disjoint paths
	type sp struct {
		name string
		s    SliceV
	}
	var ss []sp
	for i, p := range fn.Params {
		if v, ok := args[i].(SliceV); ok && v.R != nil {
			ss = append(ss, sp{p.Name(), v})
		}
	}
	for _, s := range ss {
		for _, p := range ps {
			if pathRel(PtrV{R: s.s.R, Path: s.s.Path}, p.p) != 1 && s.s.R == p.p.R {
				problems = append(problems, fmt.Sprintf("slice %s may overlap *%s", s.name, p.name))
			}
		}
	}
	for i := range ss {
		for j := i + 1; j < len(ss); j++ {
			a, b := ss[i].s, ss[j].s
			if a.R != b.R || pathRel(PtrV{R: a.R, Path: a.Path}, PtrV{R: b.R, Path: b.Path}) == 1 {
				continue
			}
			// same backing array: ranges must be disjoint
			d1 := Le(Add(a.Off, a.Len), b.Off)
			d2 := Le(Add(b.Off, b.Len), a.Off)
			if !(d1.IsTrue() || d2.IsTrue() || en.intervalHolds(st, d1) || en.intervalHolds(st, d2)) {
				problems = append(problems, fmt.Sprintf("slices %s and %s may overlap", ss[i].name, ss[j].name))
			}
		}
	}
	return part, problems
}

func aliasAllowed(fc *FuncContract, part [][]string) bool {
	if len(part) == 0 {
		return true
	}
	norm := func(p [][]string) string {
		var cls []string
		for _, c := range p {
			cc := append([]string(nil), c...)
			sortStrings(cc)
			cls = append(cls, strings.Join(cc, "=="))
		}
		sortStrings(cls)
		return strings.Join(cls, ",")
	}
	want := norm(part)
	for _, ap := range fc.Alias {
		if norm(ap) == want {
			return true
		}
	}
	return false
}

func sortStrings(s []string) {
	for i := 1; i < len(s); i++ {
		for j := i; j > 0 && s[j] < s[j-1]; j-- {
			s[j], s[j-1] = s[j-1], s[j]
		}
	}
}

func (en *Engine) applyContract(st *State, f *Frame, x *ssa.Call, fn *ssa.Function, fc *FuncContract, pc *PkgContracts, args []Value, pos string) []*State {
	name := calleeName(fn)
	en.usedContracts[name] = true
	if fc.Assumed {
		en.assumedUsed[name] = true
	}
	env := en.bindParams(fn, fc, args)
	en.aliasConds = nil
	part, problems := en.aliasPartition(st, fn, args)
	short := fn.Pkg.Pkg.Name() + "." + fn.RelString(fn.Pkg.Pkg)
	for _, c := range en.aliasConds {
		en.flushSide(st)
		en.addObl(st, "alias@"+short, c, "pointer arguments into the same array designate distinct elements", pos)
	}
	en.aliasConds = nil
	if len(problems) > 0 || !aliasAllowed(fc, part) {
		en.flushSide(st)
		en.addObl(st, "alias@"+short, False(), fmt.Sprintf("argument aliasing %v %v is not among the alias patterns the contract of %s was verified for", part, problems, short), pos)
	}
	for pn, gname := range fc.Binds {
		gv := en.lookupGlobal(fn.Pkg.Pkg.Path(), gname)
		ok := false
		if pv, isP := env[pn].(PtrV); isP && gv != nil && pv.R == en.globalRegion(gv) && len(pv.Path) == 0 {
			ok = true
		}
		if !ok {
			en.flushSide(st)
			en.addObl(st, "pre@"+short, False(), fmt.Sprintf("argument %s of %s must be &%s (the contract is verified for that table only)", pn, short, gname), pos)
		}
	}
	oldMem := make(map[*Region]Cell, len(st.mem))
	for k, v := range st.mem {
		oldMem[k] = v
	}
	sc := &specCtx{en: en, pc: pc, fc: fc, st: st, oldMem: oldMem, env: env, oldEnv: env}
	// preconditions
	for i, r := range fc.Requires {
		g := sc.evalBool(r.Expr)
		if g.IsTrue() {
			continue
		}
		if en.intervalHolds(st, g) {
			st.addSide(g, "precondition of "+short+": "+r.Src)
			continue
		}
		en.flushSide(st)
		o := en.addObl(st, "pre@"+short, g, fmt.Sprintf("precondition #%d of %s: %s", i+1, short, r.Src), pos)
		_ = o
		st.assume(g)
	}
	if len(fc.Cases) > 0 {
		var ds []*Term
		var srcs []string
		for _, c := range fc.Cases {
			ds = append(ds, sc.evalBool(c.Expr))
			srcs = append(srcs, c.Src)
		}
		g := Or(ds...)
		if !g.IsTrue() {
			en.flushSide(st)
			en.addObl(st, "pre@"+short, g, fmt.Sprintf("one of the precondition cases of %s holds: %s", short, strings.Join(srcs, " | ")), pos)
			st.assume(g)
		}
	}
	en.flushSide(st)
	var extra []*State
	// panics clause
	if fc.Panics != nil {
		pcnd := sc.evalBool(fc.Panics.Expr)
		if !pcnd.IsFalse() {
			if pcnd.IsTrue() {
				st.done, st.panicked = true, true
				st.panicMsg = "callee " + short + " panics (" + fc.Panics.Src + ") at " + pos
				return nil
			}
			ps := st.clone()
			ps.assume(pcnd)
			ps.done, ps.panicked = true, true
			ps.panicMsg = "callee " + short + " panics (" + fc.Panics.Src + ") at " + pos
			extra = append(extra, ps)
			st.assume(Not(pcnd))
		}
	}
	// havoc frame
	TS.mu.Lock()
	freshLo := TS.fresh
	TS.mu.Unlock()
	nFactsBefore := len(st.facts)
	// element invariants the callee relies on must be declared (same array, same predicate) by the caller
	for ci := range fc.ElemInv {
		ce := &fc.ElemInv[ci]
		var cl Value
		func() {
			defer func() { recover() }()
			cl = sc.lvalue(ce.Arr.Expr)
		}()
		cp, ok := cl.(PtrV)
		found := false
		if ok && len(st.frames) > 0 && st.frames[0].spec != nil {
			f0 := st.frames[0]
			for i := range f0.spec.fc.ElemInv {
				ei := &f0.spec.fc.ElemInv[i]
				if ei.Pred.Src != ce.Pred.Src {
					continue
				}
				var loc Value
				func() {
					defer func() { recover() }()
					s2 := *f0.spec
					s2.st = st
					s2.locals = en.localsResolver(st, f0)
					loc = s2.lvalue(ei.Arr.Expr)
				}()
				if a, ok := loc.(PtrV); ok && a.R == cp.R && len(a.Path) == len(cp.Path) {
					same := true
					for k := range a.Path {
						if a.Path[k].Field != cp.Path[k].Field || a.Path[k].Idx != nil || cp.Path[k].Idx != nil {
							same = false
						}
					}
					found = found || same
				}
			}
		}
		goal := True()
		if !found {
			goal = False()
		}
		en.addObl(st, "pre-elem-inv@"+short, goal, "the caller maintains the element invariant "+ce.Pred.Src+" of "+ce.Arr.Src+" that "+name+" relies on", pos)
	}
	var written []PtrV
	for _, m := range fc.Modifies {
		switch l := sc.lvalue(m.Expr).(type) {
		case PtrV:
			if st.wframe != nil {
				en.checkWrite(st, l.R, l.Path, nil, nil, pos)
			}
			written = append(written, l)
		case SliceV:
			if st.wframe != nil {
				en.checkWrite(st, l.R, l.Path, l.Off, l.Len, pos)
			}
		}
		en.havocLvalue(st, sc, m)
	}
	TS.mu.Lock()
	freshHi := TS.fresh
	TS.mu.Unlock()
	// result
	var res Value
	sig := fn.Signature
	if sig.Results().Len() == 1 {
		res = en.freshValue(st, sig.Results().At(0).Type(), short+".result")
	} else if sig.Results().Len() > 1 {
		var tv TupleV
		for i := 0; i < sig.Results().Len(); i++ {
			tv = append(tv, en.freshValue(st, sig.Results().At(i).Type(), fmt.Sprintf("%s.result%d", short, i)))
		}
		res = tv
	}
	sc.env = map[string]Value{}
	for k, v := range env {
		sc.env[k] = v
	}
	if res != nil {
		sc.env["result"] = res
		if tv, ok := res.(TupleV); ok {
			for i, v := range tv {
				sc.env[fmt.Sprintf("result%d", i)] = v
			}
		}
	}
	// results declared fresh by the callee's (proved) contract are fresh here
	for _, e := range fc.Ensures {
		if strings.Contains(e.Src, "fresh(") {
			mark := func(v Value) {
				switch x := v.(type) {
				case SliceV:
					if x.R != nil {
						st.freshRegions[x.R] = true
					}
				case PtrV:
					if x.R != nil {
						st.freshRegions[x.R] = true
					}
				}
			}
			if tv, ok := res.(TupleV); ok {
				for i, v := range tv {
					if strings.Contains(e.Src, fmt.Sprintf("fresh(result%d)", i)) {
						mark(v)
					}
				}
			} else if strings.Contains(e.Src, "fresh(result)") {
				mark(res)
			}
		}
	}
	for _, e := range fc.Ensures {
		st.assume(sc.evalBool(e.Expr))
	}
	for _, e := range fc.AssumedEnsures {
		st.assume(sc.evalBool(e.Expr))
		en.assumedUsed[name+" (assume-ensures: "+e.Src+")"] = true
	}
	// a postcondition of the form  <fresh output cell> == <term over older values>  defines that
	// cell: store the term itself, so that the value flows on syntactically
	if freshHi > freshLo {
		en.propagateDefs(st, sc, fc, nFactsBefore, freshLo, freshHi)
	}
	// element invariants of the caller: re-established for every element the callee wrote;
	// a callee that rewrites a whole invariant-carrying array must declare the same invariant
	for _, w := range written {
		en.elemInvCheck(st, w.R, w.Path, pos)
		en.elemInvWhole(st, w, fc, sc, name, pos)
	}
	f.env[x] = res
	return extra
}

// elemInvWhole: the callee's modifies clause names a whole array that carries an element
// invariant in the caller: the callee must carry the same invariant (same predicate text) on it.
func (en *Engine) elemInvWhole(st *State, w PtrV, callee *FuncContract, csc *specCtx, name, pos string) {
	if len(st.frames) == 0 || st.frames[0].spec == nil {
		return
	}
	f := st.frames[0]
	for i := range f.spec.fc.ElemInv {
		ei := &f.spec.fc.ElemInv[i]
		var loc Value
		func() {
			defer func() {
				if rec := recover(); rec != nil {
					if _, ok := rec.(execError); !ok {
						panic(rec)
					}
				}
			}()
			sc := *f.spec
			sc.st = st
			sc.locals = en.localsResolver(st, f)
			loc = sc.lvalue(ei.Arr.Expr)
		}()
		a, ok := loc.(PtrV)
		if !ok || a.R != w.R || len(w.Path) > len(a.Path) {
			continue
		}
		pre := true
		for k, e := range w.Path {
			if e.Idx != nil || a.Path[k].Idx != nil || e.Field != a.Path[k].Field {
				pre = false
			}
		}
		if !pre {
			continue
		}
		// w covers the whole array a: look for the same invariant in the callee
		found := false
		for _, ce := range callee.ElemInv {
			if ce.Pred.Src != ei.Pred.Src {
				continue
			}
			var cl Value
			func() {
				defer func() { recover() }()
				cl = csc.lvalue(ce.Arr.Expr)
			}()
			if cp, ok := cl.(PtrV); ok && cp.R == a.R && len(cp.Path) == len(a.Path) {
				same := true
				for k := range cp.Path {
					if cp.Path[k].Field != a.Path[k].Field || cp.Path[k].Idx != nil {
						same = false
					}
				}
				if same {
					found = true
				}
			}
		}
		goal := True()
		if !found {
			goal = False()
		}
		if callee.Assumed && found {
			en.assumedUsed[name+" (assumed to preserve the element invariant "+ei.Pred.Src+" of "+ei.Arr.Src+")"] = true
		}
		en.addObl(st, "elem-inv", goal, "callee "+name+" rewrites "+ei.Arr.Src+" and declares the same element invariant "+ei.Pred.Src, pos)
	}
}

func (en *Engine) freshValue(st *State, t types.Type, prefix string) Value {
	var facts []*Term
	var v Value
	switch t.Underlying().(type) {
	case *types.Slice, *types.Interface, *types.Pointer:
		v = en.freshOfType(st, t, prefix, &facts)
		for _, f := range facts {
			st.assume(f)
		}
		return v
	}
	if isScalarType(t) {
		v = en.freshScalarValue(st, t, prefix, &facts)
	} else {
		v = AggV{T: t, C: freshCell(t, prefix, &facts)}
	}
	for _, f := range facts {
		st.assume(f)
	}
	return v
}

func (en *Engine) freshScalarValue(st *State, t types.Type, prefix string, facts *[]*Term) Value {
	return freshScalar(t, prefix, facts)
}

// havocLvalue replaces the contents of the location denoted by a modifies-expression with fresh values.
func (en *Engine) havocLvalue(st *State, sc *specCtx, m SpecExpr) {
	loc := sc.lvalue(m.Expr)
	switch l := loc.(type) {
	case PtrV:
		if l.R == nil {
			return
		}
		t := sc.ptrElemType(l)
		var facts []*Term
		c := freshCell(t, l.R.name+".h", &facts)
		// a symbolic array stays symbolic
		if oc, _ := en.loadPath(st, en.regionCell(st, l.R), l.Path, l.R.typ); oc != nil {
			if sa, ok := oc.(*SymArrCell); ok && !isAggType(sa.Elem) {
				c = &SymArrCell{Arr: FreshVar(l.R.name+".h.arr", SArr), N: sa.N, Elem: sa.Elem}
			}
		}
		st.mem[l.R] = en.storePath(st, en.regionCell(st, l.R), l.Path, l.R.typ, c)
		for _, f := range facts {
			st.assume(f)
		}
	case SliceV:
		if l.R == nil {
			return
		}
		en.havocSlice(st, l)
	default:
		fail("modifies: unsupported location %T for %s", loc, m.Src)
	}
}

func (en *Engine) havocSlice(st *State, l SliceV) {
	if n, ok := l.Len.ConstInt(); ok && n <= 4096 {
		if _, ok2 := l.Off.ConstInt(); ok2 || true {
			c, _ := en.loadPath(st, en.regionCell(st, l.R), l.Path, l.R.typ)
			if _, isSym := c.(*SymArrCell); !isSym || ok2 {
				for i := int64(0); i < n; i++ {
					var facts []*Term
					v := freshScalar(l.Elem, l.R.name+".h", &facts)
					en.store(st, en.sliceElemPtr(l, ConstI(i)), v)
					for _, f := range facts {
						st.assume(f)
					}
				}
				return
			}
		}
	}
	c, _ := en.loadPath(st, en.regionCell(st, l.R), l.Path, l.R.typ)
	sa, ok := c.(*SymArrCell)
	if !ok {
		fail("havoc of symbolic range in concrete array")
	}
	na := FreshVar(l.R.name+".h", SArr)
	k := FreshVar("k", SInt)
	inr := And(Le(l.Off, k), Lt(k, Add(l.Off, l.Len)))
	st.assume(Forall(k, Imp(Not(inr), Eq(Select(na, k), Select(sa.Arr, k)))))
	st.mem[l.R] = en.storePath(st, en.regionCell(st, l.R), l.Path, l.R.typ, &SymArrCell{Arr: na, N: sa.N, Elem: sa.Elem})
}

func freshIndex(t *Term) int {
	if t.op != OVar {
		return -1
	}
	i := strings.LastIndex(t.name, "!")
	if i < 0 {
		return -1
	}
	n := 0
	for _, c := range t.name[i+1:] {
		if c < '0' || c > '9' {
			return -1
		}
		n = n*10 + int(c-'0')
	}
	return n
}

func (en *Engine) propagateDefs(st *State, sc *specCtx, fc *FuncContract, from, lo, hi int) {
	isFresh := func(t *Term) bool {
		n := freshIndex(t)
		return n > lo && n <= hi
	}
	mentionsFresh := func(t *Term) bool {
		found := false
		walk(t, map[int]bool{}, func(x *Term) {
			if isFresh(x) {
				found = true
			}
		})
		return found
	}
	sub := map[int]*Term{}
	for _, f := range st.facts[from:] {
		if f.op != OEq || f.args[0].sort != SInt {
			continue
		}
		a, b := f.args[0], f.args[1]
		if isFresh(b) && !isFresh(a) {
			a, b = b, a
		}
		if isFresh(a) && !mentionsFresh(b) {
			if _, dup := sub[a.id]; !dup {
				sub[a.id] = b
			}
		}
	}
	if len(sub) == 0 {
		return
	}
	var rewrite func(c Cell) Cell
	rewrite = func(c Cell) Cell {
		switch x := c.(type) {
		case *Term:
			if r, ok := sub[x.id]; ok {
				return r
			}
			return x
		case *ArrCell:
			changed := false
			es := make([]Cell, len(x.Elems))
			for i, e := range x.Elems {
				es[i] = rewrite(e)
				if es[i] != e {
					changed = true
				}
			}
			if changed {
				return &ArrCell{es}
			}
			return x
		case *StructCell:
			changed := false
			fs := make([]Cell, len(x.Fields))
			for i, e := range x.Fields {
				fs[i] = rewrite(e)
				if fs[i] != e {
					changed = true
				}
			}
			if changed {
				return &StructCell{fs}
			}
			return x
		}
		return c
	}
	for _, m := range fc.Modifies {
		loc := sc.lvalue(m.Expr)
		var r *Region
		switch l := loc.(type) {
		case PtrV:
			r = l.R
		case SliceV:
			r = l.R
		}
		if r == nil {
			continue
		}
		if c, ok := st.mem[r]; ok {
			st.mem[r] = rewrite(c)
		}
	}
	// bounds of the defining terms carry over
	for id, t := range sub {
		_ = id
		_ = t
	}
}
