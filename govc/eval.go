package main

// Concrete evaluation of terms (exact big-integer semantics). Used to search
// for failing inputs of an undischarged obligation (the result is then replayed
// on the real code) and to cross-check the encoder on random inputs.

import (
	"fmt"
	"math/big"
	"math/rand"
	"sort"
)

type evalEnv struct {
	vars map[string]*big.Int
	memo map[int]interface{}
}

type evalErr struct{ msg string }

func evalTerm(t *Term, env *evalEnv) (res interface{}, err error) {
	defer func() {
		if r := recover(); r != nil {
			if e, ok := r.(evalErr); ok {
				err = fmt.Errorf("%s", e.msg)
				return
			}
			panic(r)
		}
	}()
	return env.ev(t), nil
}

func (env *evalEnv) ev(t *Term) interface{} {
	if v, ok := env.memo[t.id]; ok {
		return v
	}
	v := env.ev1(t)
	env.memo[t.id] = v
	return v
}

func (env *evalEnv) in(t *Term) *big.Int { return env.ev(t).(*big.Int) }
func (env *evalEnv) bo(t *Term) bool    { return env.ev(t).(bool) }

func (env *evalEnv) ev1(t *Term) interface{} {
	switch t.op {
	case OConst:
		return t.k
	case OVar:
		if t.sort == SInt {
			v, ok := env.vars[t.name]
			if !ok {
				panic(evalErr{"unbound variable " + t.name})
			}
			return v
		}
		if t.sort == SBool {
			v, ok := env.vars[t.name]
			if !ok {
				panic(evalErr{"unbound variable " + t.name})
			}
			return v.Sign() != 0
		}
		panic(evalErr{"variable of sort " + string(t.sort)})
	case OTrue:
		return true
	case OFalse:
		return false
	case OAdd:
		r := new(big.Int)
		for _, a := range t.args {
			r.Add(r, env.in(a))
		}
		return r
	case OMul:
		r := new(big.Int).Set(t.k)
		for _, a := range t.args {
			r.Mul(r, env.in(a))
		}
		return r
	case ODiv:
		return floorDiv(env.in(t.args[0]), t.k)
	case OMod:
		return floorMod(env.in(t.args[0]), t.k)
	case ODivT, OModT:
		d := env.in(t.args[1])
		if d.Sign() <= 0 {
			panic(evalErr{"division by non-positive value"})
		}
		if t.op == ODivT {
			return floorDiv(env.in(t.args[0]), d)
		}
		return floorMod(env.in(t.args[0]), d)
	case OPow:
		if t.k.BitLen() > 16 {
			panic(evalErr{"huge power"})
		}
		return new(big.Int).Exp(env.in(t.args[0]), t.k, nil)
	case OIte:
		if env.bo(t.args[0]) {
			return env.ev(t.args[1])
		}
		return env.ev(t.args[2])
	case OEq:
		a, b := env.ev(t.args[0]), env.ev(t.args[1])
		switch x := a.(type) {
		case *big.Int:
			return x.Cmp(b.(*big.Int)) == 0
		case bool:
			return x == b.(bool)
		}
		panic(evalErr{"eq on unsupported sort"})
	case OLe:
		return env.in(t.args[0]).Cmp(env.in(t.args[1])) <= 0
	case OLt:
		return env.in(t.args[0]).Cmp(env.in(t.args[1])) < 0
	case OAnd:
		for _, a := range t.args {
			if !env.bo(a) {
				return false
			}
		}
		return true
	case OOr:
		for _, a := range t.args {
			if env.bo(a) {
				return true
			}
		}
		return false
	case ONot:
		return !env.bo(t.args[0])
	case OImp:
		return !env.bo(t.args[0]) || env.bo(t.args[1])
	case OSelect:
		// element of an array variable at a concrete index: an independent input
		if t.args[0].op == OVar {
			idx := env.in(t.args[1])
			key := fmt.Sprintf("%s[%s]", t.args[0].name, idx.String())
			v, ok := env.vars[key]
			if !ok {
				panic(evalErr{"unbound array element " + key})
			}
			return v
		}
		panic(evalErr{"select from a non-variable array"})
	case OUF:
		// bit operations have a concrete meaning
		if len(t.args) == 2 {
			var w int
			var kind string
			if n, _ := fmt.Sscanf(t.name, "band%d", &w); n == 1 {
				kind = "and"
			} else if n, _ := fmt.Sscanf(t.name, "bor%d", &w); n == 1 {
				kind = "or"
			} else if n, _ := fmt.Sscanf(t.name, "bxor%d", &w); n == 1 {
				kind = "xor"
			}
			if kind != "" {
				a, b := env.in(t.args[0]), env.in(t.args[1])
				if a.Sign() < 0 || b.Sign() < 0 {
					panic(evalErr{"bit operation on negative value"})
				}
				r := new(big.Int)
				switch kind {
				case "and":
					r.And(a, b)
				case "or":
					r.Or(a, b)
				case "xor":
					r.Xor(a, b)
				}
				return r
			}
		}
		panic(evalErr{"uninterpreted function " + t.name})
	}
	panic(evalErr{fmt.Sprintf("cannot evaluate op %d", t.op)})
}

// collectVars returns the free Int/Bool variables of the terms with the bounds learnt from facts.
func collectVars(ts []*Term) []*Term {
	seen := map[int]bool{}
	var vs []*Term
	for _, t := range ts {
		walk(t, seen, func(x *Term) {
			if x.op == OVar && (x.sort == SInt || x.sort == SBool) {
				vs = append(vs, x)
			}
			if x.op == OSelect && x.args[0].op == OVar && x.args[1].op == OConst {
				vs = append(vs, x)
			}
		})
	}
	sort.Slice(vs, func(i, j int) bool { return vs[i].id < vs[j].id })
	return vs
}

// searchCounterexample samples inputs that satisfy the facts and falsify the goal.
func searchCounterexample(facts []*Term, goal *Term, tries int, seed int64) (map[string]string, string) {
	all := append(append([]*Term(nil), facts...), goal)
	// quantified assumptions cannot be evaluated on a sample: a sample that ignores them is no counterexample
	if len(quantifierFree(all)) < len(all) {
		return nil, "quantified assumptions: no sampling"
	}
	vars := collectVars(all)
	if len(vars) == 0 || len(vars) > 400 {
		return nil, "too many or no variables"
	}
	b := NewBounds()
	for _, f := range facts {
		b.Learn(f)
	}
	rng := rand.New(rand.NewSource(seed))
	sat := 0
	var firstErr string
	for i := 0; i < tries; i++ {
		env := &evalEnv{vars: map[string]*big.Int{}, memo: map[int]interface{}{}}
		for _, v := range vars {
			if v.sort == SBool {
				env.vars[v.name] = bi(int64(rng.Intn(2)))
				continue
			}
			if v.op == OSelect {
				iv := b.m[v.id]
				lo, hi := iv.lo, iv.hi
				if lo == nil {
					lo = bi(0)
				}
				if hi == nil {
					hi = bi(255)
				}
				env.vars[fmt.Sprintf("%s[%s]", v.args[0].name, v.args[1].k.String())] = sampleIn(rng, lo, hi, i)
				continue
			}
			iv := b.m[v.id]
			lo, hi := iv.lo, iv.hi
			if lo == nil {
				lo = new(big.Int).Neg(pow2(64))
			}
			if hi == nil {
				hi = pow2(64)
			}
			env.vars[v.name] = sampleIn(rng, lo, hi, i)
		}
		ok := true
		for _, f := range facts {
			r, err := evalTerm(f, env)
			if err != nil {
				if firstErr == "" {
					firstErr = err.Error()
				}
				// facts we cannot evaluate (quantifiers, UFs) are skipped: the candidate is then only a hint
				continue
			}
			if !r.(bool) {
				ok = false
				break
			}
		}
		if !ok {
			continue
		}
		sat++
		r, err := evalTerm(goal, env)
		if err != nil {
			return nil, "goal not evaluable: " + err.Error()
		}
		if !r.(bool) {
			m := map[string]string{}
			for k, v := range env.vars {
				m[k] = v.String()
			}
			return m, fmt.Sprintf("found after %d samples (%d satisfied the assumptions)", i+1, sat)
		}
	}
	return nil, fmt.Sprintf("no counterexample in %d samples (%d satisfied the assumptions) %s", tries, sat, firstErr)
}

func sampleIn(rng *rand.Rand, lo, hi *big.Int, round int) *big.Int {
	span := new(big.Int).Sub(hi, lo)
	if span.Sign() <= 0 {
		return new(big.Int).Set(lo)
	}
	switch rng.Intn(6) {
	case 0:
		return new(big.Int).Set(lo)
	case 1:
		return new(big.Int).Set(hi)
	case 2:
		// near a power of two inside the range
		k := rng.Intn(span.BitLen() + 1)
		v := new(big.Int).Add(lo, pow2(k))
		v.Add(v, bi(int64(rng.Intn(3)-1)))
		if v.Cmp(lo) >= 0 && v.Cmp(hi) <= 0 {
			return v
		}
		return new(big.Int).Set(hi)
	case 3:
		// hi minus small
		v := new(big.Int).Sub(hi, bi(int64(rng.Intn(40))))
		if v.Cmp(lo) >= 0 {
			return v
		}
		return new(big.Int).Set(lo)
	case 4:
		v := new(big.Int).Add(lo, bi(int64(rng.Intn(40))))
		if v.Cmp(hi) <= 0 {
			return v
		}
		return new(big.Int).Set(hi)
	}
	r := new(big.Int).Rand(rng, new(big.Int).Add(span, bi(1)))
	return r.Add(r, lo)
}

// confirmModel checks by exact evaluation that the model satisfies all facts and falsifies the goal.
func confirmModel(facts []*Term, goal *Term, m map[string]string) (bool, string) {
	env := &evalEnv{vars: map[string]*big.Int{}, memo: map[int]interface{}{}}
	for k, v := range m {
		switch v {
		case "true":
			env.vars[k] = bi(1)
		case "false":
			env.vars[k] = bi(0)
		default:
			n, ok := new(big.Int).SetString(v, 10)
			if !ok {
				continue
			}
			env.vars[k] = n
		}
	}
	for _, f := range facts {
		r, err := evalTerm(f, env)
		if err != nil {
			return false, err.Error()
		}
		if !r.(bool) {
			return false, "model violates an assumption"
		}
	}
	r, err := evalTerm(goal, env)
	if err != nil {
		return false, err.Error()
	}
	if r.(bool) {
		return false, "goal holds in the model"
	}
	return true, ""
}
