package main

// `ground` back end: closed obligations about the constant tables are decided by
// evaluation with an executable big-integer specification of the curve
// (affine twisted Edwards arithmetic over GF(2^255-19), written directly from
// the addition law; it shares no code with /repo).

import (
	"fmt"
	"math/big"
)

var (
	gP, _  = new(big.Int).SetString("57896044618658097711785492504343953926634992332820282019728792003956564819949", 10)
	gD, _  = new(big.Int).SetString("37095705934669439343138083508754565189542113879843219016388785533085940283555", 10)
	gBx, _ = new(big.Int).SetString("15112221349535400772501151409588531511454012693041857206046113283949847762202", 10)
	gBy, _ = new(big.Int).SetString("46316835694926478169428394003475163141307993866256225615783033603165251855960", 10)
)

type affPt struct{ x, y *big.Int }

func fmod(a *big.Int) *big.Int { return new(big.Int).Mod(a, gP) }
func fmul(a, b *big.Int) *big.Int {
	return fmod(new(big.Int).Mul(a, b))
}
func finv(a *big.Int) *big.Int { return new(big.Int).Exp(a, new(big.Int).Sub(gP, bi(2)), gP) }

func edAdd(p, q affPt) affPt {
	t := fmul(gD, fmul(fmul(p.x, q.x), fmul(p.y, q.y)))
	xn := fmod(new(big.Int).Add(fmul(p.x, q.y), fmul(p.y, q.x)))
	yn := fmod(new(big.Int).Add(fmul(p.y, q.y), fmul(p.x, q.x)))
	xd := finv(fmod(new(big.Int).Add(bi(1), t)))
	yd := finv(fmod(new(big.Int).Sub(bi(1), t)))
	return affPt{fmul(xn, xd), fmul(yn, yd)}
}

func edMul(k *big.Int, p affPt) affPt {
	r := affPt{bi(0), bi(1)}
	q := p
	for i := 0; i < k.BitLen(); i++ {
		if k.Bit(i) == 1 {
			r = edAdd(r, q)
		}
		q = edAdd(q, q)
	}
	return r
}

// niels returns (y-x, y+x, 2xy [*d]) of a point.
func niels(p affPt, withD bool) [3]*big.Int {
	t := fmul(bi(2), fmul(p.x, p.y))
	if withD {
		t = fmul(t, gD)
	}
	return [3]*big.Int{fmod(new(big.Int).Sub(p.y, p.x)), fmod(new(big.Int).Add(p.y, p.x)), t}
}

type GroundResult struct {
	Name   string
	OK     bool
	Detail string
}

func cellConstInts(c Cell) ([]*big.Int, bool) {
	a, ok := c.(*ArrCell)
	if !ok {
		return nil, false
	}
	out := make([]*big.Int, len(a.Elems))
	for i, e := range a.Elems {
		t, ok := e.(*Term)
		if !ok || t.op != OConst {
			return nil, false
		}
		out[i] = t.k
	}
	return out, true
}

func leBytes(bs []*big.Int) *big.Int {
	r := new(big.Int)
	for i, b := range bs {
		r.Add(r, new(big.Int).Lsh(b, uint(8*i)))
	}
	return r
}

// limbValue computes fval of a constant limb array under the loaded layout.
func (en *Engine) limbValue(ls []*big.Int) *big.Int {
	r := new(big.Int)
	if len(ls) == 5 {
		for i, l := range ls {
			r.Add(r, new(big.Int).Lsh(l, uint(51*i)))
		}
		return r
	}
	sh := []uint{0, 26, 51, 77, 102, 128, 153, 179, 204, 230}
	for i, l := range ls {
		r.Add(r, new(big.Int).Lsh(l, sh[i]))
	}
	return r
}

func (en *Engine) globalByName(pkgSuffix, name string) Cell {
	for g, c := range en.globalInit {
		if g.Name() == name && g.Pkg != nil && (pkgSuffix == "" || hasSuffix(g.Pkg.Pkg.Path(), pkgSuffix)) {
			return c
		}
	}
	return nil
}

func hasSuffix(s, suf string) bool { return len(s) >= len(suf) && s[len(s)-len(suf):] == suf }

// GroundFacts validates the constant tables of the tree under test against the executable
// specification. For every validated entry it returns the corresponding ground equation over
// the spec functions (to be used as a fact); every entry yields a result line.
func (en *Engine) GroundFacts() (facts []*Term, results []GroundResult) {
	if en.groundDone {
		return en.groundFacts, en.groundResults
	}
	en.groundDone = true
	B := affPt{gBx, gBy}
	pt := func(name string, a [3]*big.Int) *Term {
		return UF(name, Sort("Pt"), Const(a[0]), Const(a[1]), Const(a[2]))
	}
	mulB := func(k *big.Int) *Term { return UF("mulB", Sort("Pt"), Const(k)) }
	add := func(name string, ok bool, detail string) {
		results = append(results, GroundResult{Name: name, OK: ok, Detail: detail})
	}
	// packed base table: entry 8*pos+j is (j+1)*256^pos*B as (y-x, y+x, 2xy) for pos 0 and (y-x, y+x, 2dxy) for pos>0
	if c := en.globalByName("internal/ge25519", "NielsBaseMultiples"); c != nil {
		tab, ok := c.(*ArrCell)
		if !ok || len(tab.Elems) != 256 {
			add("ground:NielsBaseMultiples", false, "table is not a [256][96]byte constant")
		} else {
			for idx := 0; idx < 256; idx++ {
				bs, ok := cellConstInts(tab.Elems[idx])
				name := fmt.Sprintf("ground:NielsBaseMultiples[%d]", idx)
				if !ok || len(bs) != 96 {
					add(name, false, "entry is not constant")
					continue
				}
				pos, j := idx/8, idx%8
				k := new(big.Int).Mul(bi(int64(j+1)), new(big.Int).Exp(bi(256), bi(int64(pos)), nil))
				want := niels(edMul(k, B), pos > 0)
				got := [3]*big.Int{leBytes(bs[0:32]), leBytes(bs[32:64]), leBytes(bs[64:96])}
				if got[0].Cmp(want[0]) != 0 || got[1].Cmp(want[1]) != 0 || got[2].Cmp(want[2]) != 0 {
					add(name, false, fmt.Sprintf("entry is not the packed niels form of %d*256^%d*B", j+1, pos))
					continue
				}
				add(name, true, fmt.Sprintf("= niels(%d*256^%d*B)", j+1, pos))
				fn := "ptN"
				if pos == 0 {
					fn = "ptN0"
				}
				facts = append(facts, Eq(pt(fn, got), mulB(k)))
			}
		}
	} else {
		add("ground:NielsBaseMultiples", false, "global not found")
	}
	// sliding multiples: entry j is (2j+1)*B as limbs (y-x, y+x, 2dxy)
	if c := en.globalByName("internal/ge25519", "nielsSlidingMultiples"); c != nil {
		tab, ok := c.(*ArrCell)
		if ok {
			for j, e := range tab.Elems {
				name := fmt.Sprintf("ground:nielsSlidingMultiples[%d]", j)
				sc, ok := e.(*StructCell)
				if !ok || len(sc.Fields) != 3 {
					add(name, false, "unexpected shape")
					continue
				}
				var got [3]*big.Int
				good := true
				for f := 0; f < 3; f++ {
					ls, ok := cellConstInts(sc.Fields[f])
					if !ok {
						good = false
						break
					}
					got[f] = fmod(en.limbValue(ls))
				}
				if !good {
					add(name, false, "entry is not constant")
					continue
				}
				k := bi(int64(2*j + 1))
				want := niels(edMul(k, B), true)
				if got[0].Cmp(want[0]) != 0 || got[1].Cmp(want[1]) != 0 || got[2].Cmp(want[2]) != 0 {
					add(name, false, fmt.Sprintf("entry is not niels(%d*B)", 2*j+1))
					continue
				}
				add(name, true, fmt.Sprintf("= niels(%d*B)", 2*j+1))
				facts = append(facts, Eq(pt("ptN", got), mulB(k)))
			}
		}
	}
	// field constants
	checkConst := func(name string, want *big.Int) {
		c := en.globalByName("internal/ge25519", name)
		ls, ok := cellConstInts(c)
		if c == nil || !ok {
			add("ground:"+name, false, "constant not found")
			return
		}
		if fmod(en.limbValue(ls)).Cmp(want) != 0 {
			add("ground:"+name, false, "value differs from the mathematical constant")
			return
		}
		add("ground:"+name, true, "matches")
	}
	checkConst("ecd", gD)
	checkConst("ec2d", fmod(new(big.Int).Mul(bi(2), gD)))
	sq, _ := new(big.Int).SetString("19681161376707505956807079304988542015446066515923890162744021073123829784752", 10)
	checkConst("sqrtNeg1", sq)
	// base point
	if c := en.globalByName("internal/ge25519", "Basepoint"); c != nil {
		if sc, ok := c.(*StructCell); ok && len(sc.Fields) == 4 {
			var v [4]*big.Int
			good := true
			for f := 0; f < 4; f++ {
				ls, ok := cellConstInts(sc.Fields[f])
				if !ok {
					good = false
					break
				}
				v[f] = fmod(en.limbValue(ls))
			}
			if good && v[0].Cmp(gBx) == 0 && v[1].Cmp(gBy) == 0 && v[2].Cmp(bi(1)) == 0 && v[3].Cmp(fmul(gBx, gBy)) == 0 {
				add("ground:Basepoint", true, "= (Bx, By, 1, Bx*By)")
				facts = append(facts, Eq(UF("pt3", Sort("Pt"), Const(v[0]), Const(v[1]), Const(v[2])), mulB(bi(1))))
			} else {
				add("ground:Basepoint", false, "is not the extended representation of B")
			}
		}
	}
	// identity representations
	facts = append(facts, Eq(pt("ptN", [3]*big.Int{bi(1), bi(1), bi(0)}), mulB(bi(0))))
	facts = append(facts, Eq(pt("ptN0", [3]*big.Int{bi(1), bi(1), bi(0)}), mulB(bi(0))))
	en.groundFacts, en.groundResults = facts, results
	return
}

// groundDecide decides closed goals of the form  pt(c1,c2,c3) == mulB(k)  by evaluation.
func groundDecide(goal *Term) (decided, holds bool, why string) {
	if goal.op != OEq {
		return false, false, ""
	}
	a, b := goal.args[0], goal.args[1]
	if a.op == OUF && a.name == "mulB" {
		a, b = b, a
	}
	if a.op != OUF || b.op != OUF || b.name != "mulB" || len(b.args) != 1 || b.args[0].op != OConst {
		return false, false, ""
	}
	for _, x := range a.args {
		if x.op != OConst {
			return false, false, ""
		}
	}
	k := b.args[0].k
	neg := k.Sign() < 0
	p := edMul(new(big.Int).Abs(k), affPt{gBx, gBy})
	if neg {
		p = affPt{fmod(new(big.Int).Neg(p.x)), p.y}
	}
	var want []*big.Int
	switch a.name {
	case "ptN":
		n := niels(p, true)
		want = n[:]
	case "ptN0":
		n := niels(p, false)
		want = n[:]
	default:
		return false, false, ""
	}
	if len(want) != len(a.args) {
		return false, false, ""
	}
	for i := range want {
		if fmod(a.args[i].k).Cmp(want[i]) != 0 {
			return true, false, fmt.Sprintf("%s(...) is not the %s form of %s*B", a.name, a.name, k.String())
		}
	}
	return true, true, fmt.Sprintf("evaluated: equals the %s form of %s*B", a.name, k.String())
}
