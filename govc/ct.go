package main

// Secrecy contracts ("ct" clauses) and their modular check.
//
// A function contract may carry one clause
//
//     ct                      every parameter (scalar value or the memory reachable from a
//                             pointer/slice/interface parameter) may hold secret data
//     ct public a, b          ... except a and b, which callers must pass public
//     ct secret a, b          only a and b may be secret; everything else is public
//     ... pubres 0, 2         results #0 and #2 are public even when secrets went in
//
// Lengths, capacities, addresses and dynamic types are always public.
//
// For a function under a ct clause the body is checked with every may-be-secret parameter
// assumed secret: no `if`/switch/loop condition, index, slice bound, map key, division operand
// or allocation size may depend on secret data (obligations ct-branch, ct-index, ct-div,
// ct-alloc); a call may pass secret data only to a callee parameter whose own ct clause admits
// secrets (ct-arg), never to a function without a ct clause (ct-call; every *Vartime function,
// bytes.Equal, ...), and a result declared public must be public at every return (ct-result).
// Secret data must not be stored into package-level variables (ct-global).
// The check is modular: at a call only the callee's clause is used; its body is checked against
// that clause on its own. The dependency analysis is the usual sound over-approximation: a
// value is public only if it is computed from public values; memory is abstracted to one
// secrecy bit per allocation site / parameter / global, flow-insensitively.

import (
	"fmt"
	"go/token"
	"go/types"
	"os"
	"path/filepath"
	"regexp"
	"sort"
	"strings"

	"golang.org/x/tools/go/ssa"
)

type CTSpec struct {
	Mode   string // "all", "public" (all but listed), "secret" (only listed)
	Names  []string
	PubRes []int
}

func parseCTClause(rest string) (*CTSpec, error) {
	c := &CTSpec{Mode: "all"}
	toks := strings.FieldsFunc(rest, func(r rune) bool { return r == ' ' || r == ',' || r == '\t' })
	cur := ""
	for _, t := range toks {
		switch t {
		case "public", "secret":
			if c.Mode != "all" && c.Mode != t {
				return nil, fmt.Errorf("ct clause mixes public and secret lists")
			}
			c.Mode = t
			cur = t
		case "pubres":
			cur = t
		default:
			switch cur {
			case "public", "secret":
				c.Names = append(c.Names, t)
			case "pubres":
				var n int
				if _, err := fmt.Sscanf(t, "%d", &n); err != nil {
					return nil, fmt.Errorf("bad pubres index %q", t)
				}
				c.PubRes = append(c.PubRes, n)
			default:
				return nil, fmt.Errorf("unexpected %q in ct clause", t)
			}
		}
	}
	return c, nil
}

func (c *CTSpec) paramSecret(name string) bool {
	in := false
	for _, n := range c.Names {
		if n == name {
			in = true
		}
	}
	switch c.Mode {
	case "public":
		return !in
	case "secret":
		return in
	}
	return true
}

func (c *CTSpec) resPublic(i int) bool {
	for _, n := range c.PubRes {
		if n == i {
			return true
		}
	}
	return false
}

// ---------------------------------------------------------------------------------------------

type ctObj struct {
	name string
}

type ctAnalysis struct {
	en      *Engine
	fn      *ssa.Function
	spec    *CTSpec
	taintV  map[ssa.Value]bool
	tupleT  map[ssa.Value][]bool
	pts     map[ssa.Value]map[*ctObj]bool
	taintO  map[*ctObj]bool
	cont    map[*ctObj]map[*ctObj]bool // pointers stored inside an object
	objs    map[interface{}]*ctObj
	written map[*ctObj]bool
	params  map[*ctObj]int
	changed bool
	final   bool
	obls    []*Obligation
	seq     map[string]int
	assumed map[string]bool
	fv      map[ssa.Value]map[*ssa.MakeClosure]bool
	objFv   map[*ctObj]map[*ssa.MakeClosure]bool
	incl    []*ssa.Function
	inclSet map[*ssa.Function]bool
	callers map[*ssa.Function]map[*ssa.Call]bool
	curFn   *ssa.Function
}

// external (non-repository) callees: how secrets may be passed.
//   "ct"      constant-time in all arguments; results and written arguments become secret
//   "public"  must not receive secret data
var ctExtern = map[string]string{
	"crypto/sha512.New":                       "ct",
	"crypto/subtle.ConstantTimeCompare":       "ct",
	"crypto/subtle.ConstantTimeCopy":          "ct",
	"crypto/subtle.ConstantTimeSelect":        "ct",
	"crypto/subtle.ConstantTimeByteEq":        "ct",
	"crypto/subtle.ConstantTimeEq":            "ct",
	"crypto/subtle.ConstantTimeLessOrEq":      "ct",
	"math/bits.Mul64":                         "ct",
	"math/bits.Add64":                         "ct",
	"math/bits.Sub64":                         "ct",
	"math/bits.Mul32":                         "ct",
	"math/bits.Add32":                         "ct",
	"math/bits.Sub32":                         "ct",
	"math/bits.RotateLeft64":                  "ct",
	"math/bits.RotateLeft32":                  "ct",
	"(encoding/binary.littleEndian).Uint64":   "ct",
	"(encoding/binary.littleEndian).Uint32":   "ct",
	"(encoding/binary.littleEndian).Uint16":   "ct",
	"(encoding/binary.littleEndian).PutUint64": "ct",
	"(encoding/binary.littleEndian).PutUint32": "ct",
	"(encoding/binary.littleEndian).PutUint16": "ct",
	"golang.org/x/crypto/curve25519.ScalarMult": "ct",
	"io.ReadFull":                              "entropy",
	"crypto/rand.Read":                         "entropy",
}

// read-only pointer arguments of external callees (index list); default: all written
var ctExternReadonly = map[string][]int{
	"crypto/subtle.ConstantTimeCompare":         {0, 1},
	"crypto/subtle.ConstantTimeCopy":            {0, 2},
	"(encoding/binary.littleEndian).Uint64":     {0, 1},
	"(encoding/binary.littleEndian).Uint32":     {0, 1},
	"(encoding/binary.littleEndian).PutUint64":  {0},
	"(encoding/binary.littleEndian).PutUint32":  {0},
	"golang.org/x/crypto/curve25519.ScalarMult": {1, 2},
	"io.ReadFull":                               {0},
}

// interface methods through which secrets may pass (hash.Hash)
var ctInvoke = map[string]string{
	"Write": "absorb", // receiver absorbs the argument
	"Sum":   "squeeze",
	"Reset": "none",
	"Size":  "none",
	"BlockSize": "none",
}

func isPtrLike(t types.Type) bool {
	switch u := t.Underlying().(type) {
	case *types.Pointer, *types.Slice, *types.Interface, *types.Map, *types.Chan, *types.Signature:
		return true
	case *types.Basic:
		return u.Kind() == types.String || u.Kind() == types.UnsafePointer
	case *types.Struct:
		for i := 0; i < u.NumFields(); i++ {
			if isPtrLike(u.Field(i).Type()) {
				return true
			}
		}
	case *types.Array:
		return isPtrLike(u.Elem())
	case *types.Tuple:
		for i := 0; i < u.Len(); i++ {
			if isPtrLike(u.At(i).Type()) {
				return true
			}
		}
	}
	return false
}

func (a *ctAnalysis) obj(key interface{}, name string) *ctObj {
	if o, ok := a.objs[key]; ok {
		return o
	}
	o := &ctObj{name: name}
	a.objs[key] = o
	return o
}

func (a *ctAnalysis) setTaintV(v ssa.Value, t bool) {
	if t && !a.taintV[v] {
		a.taintV[v] = true
		a.changed = true
	}
}

func (a *ctAnalysis) setTaintO(o *ctObj, t bool) {
	if t && !a.taintO[o] {
		a.taintO[o] = true
		a.changed = true
	}
}

func (a *ctAnalysis) addPts(v ssa.Value, os map[*ctObj]bool) {
	if len(os) == 0 {
		return
	}
	m := a.pts[v]
	if m == nil {
		m = map[*ctObj]bool{}
		a.pts[v] = m
	}
	for o := range os {
		if !m[o] {
			m[o] = true
			a.changed = true
		}
	}
}

func (a *ctAnalysis) ptsOf(v ssa.Value) map[*ctObj]bool {
	switch x := v.(type) {
	case *ssa.Global:
		o := a.obj(x, "global "+x.Name())
		return map[*ctObj]bool{o: true}
	case *ssa.Const, *ssa.Function, *ssa.Builtin:
		return nil
	}
	return a.pts[v]
}

// reach: objects reachable from the value through stored pointers
func (a *ctAnalysis) reach(v ssa.Value) map[*ctObj]bool {
	out := map[*ctObj]bool{}
	var walk func(o *ctObj)
	walk = func(o *ctObj) {
		if out[o] {
			return
		}
		out[o] = true
		for c := range a.cont[o] {
			walk(c)
		}
	}
	for o := range a.ptsOf(v) {
		walk(o)
	}
	return out
}

// secretArg: does the argument carry secret data (its value or anything reachable from it)?
func (a *ctAnalysis) secretArg(v ssa.Value) bool {
	if a.valTaint(v) {
		return true
	}
	for o := range a.reach(v) {
		if a.taintO[o] {
			return true
		}
	}
	return false
}

func (a *ctAnalysis) valTaint(v ssa.Value) bool {
	switch v.(type) {
	case *ssa.Const, *ssa.Global, *ssa.Function, *ssa.Builtin:
		return false
	}
	return a.taintV[v]
}

func (a *ctAnalysis) describe(v ssa.Value) string {
	if n, ok := a.en.debugNames[v]; ok && n != "" {
		return n
	}
	var names []string
	for o := range a.reach(v) {
		if a.taintO[o] {
			names = append(names, o.name)
		}
	}
	sort.Strings(names)
	if len(names) > 0 {
		return v.Name() + " (-> " + strings.Join(names, ", ") + ")"
	}
	return v.Name()
}

func (a *ctAnalysis) check(kind string, ok bool, pos token.Pos, detail string) {
	if !a.final {
		return
	}
	a.seq[kind]++
	goal := True()
	if !ok {
		goal = False()
	}
	p := a.en.prog.Fset.Position(pos)
	a.obls = append(a.obls, &Obligation{
		Name:   fmt.Sprintf("%s[%s]/%s#%d", a.en.funcKey(a.fn), a.en.cfgName, kind, a.seq[kind]),
		Kind:   kind,
		Func:   a.en.funcKey(a.fn),
		Goal:   goal,
		Detail: detail,
		Pos:    fmt.Sprintf("%s:%d", filepath.Base(p.Filename), p.Line),
	})
}

func (a *ctAnalysis) store(ptr ssa.Value, val ssa.Value, extraTaint bool) {
	t := a.valTaint(val) || extraTaint
	for o := range a.ptsOf(ptr) {
		if val != nil {
			for c := range a.fvOf(val) {
				if a.objFv[o] == nil {
					a.objFv[o] = map[*ssa.MakeClosure]bool{}
				}
				if !a.objFv[o][c] {
					a.objFv[o][c] = true
					a.changed = true
				}
			}
		}
		a.setTaintO(o, t)
		if !a.written[o] {
			a.written[o] = true
			a.changed = true
		}
		if val != nil && isPtrLike(val.Type()) {
			for c := range a.ptsOf(val) {
				if a.cont[o] == nil {
					a.cont[o] = map[*ctObj]bool{}
				}
				if !a.cont[o][c] {
					a.cont[o][c] = true
					a.changed = true
				}
			}
		}
	}
}

func (a *ctAnalysis) markWritten(v ssa.Value, taint bool) {
	for o := range a.reach(v) {
		if !a.written[o] {
			a.written[o] = true
			a.changed = true
		}
		a.setTaintO(o, taint)
	}
}

// memTaint: secrecy of the memory a pointer-like value designates (not transitive)
func (a *ctAnalysis) memTaint(v ssa.Value) bool {
	for o := range a.ptsOf(v) {
		if a.taintO[o] {
			return true
		}
	}
	return false
}

func (a *ctAnalysis) run() {
	fn := a.fn
	// parameters
	for i, p := range fn.Params {
		sec := a.spec.paramSecret(p.Name())
		if isPtrLike(p.Type()) {
			o := a.obj(p, "parameter "+p.Name())
			a.params[o] = i
			a.cont[o] = map[*ctObj]bool{o: true}
			a.pts[p] = map[*ctObj]bool{o: true}
			a.taintO[o] = sec
			// a by-value struct / scalar part of the parameter
			if _, isS := p.Type().Underlying().(*types.Struct); isS {
				a.taintV[p] = sec
			}
		} else {
			a.taintV[p] = sec
		}
	}
	for iter := 0; iter < 50; iter++ {
		a.changed = false
		a.pass()
		if !a.changed {
			break
		}
	}
	a.final = true
	a.pass()
}

func (a *ctAnalysis) pass() {
	a.curFn = a.fn
	for _, b := range a.fn.Blocks {
		for _, ins := range b.Instrs {
			a.instr(ins)
		}
	}
	// closures called from the body are analysed as part of it (context-insensitively)
	for i := 0; i < len(a.incl); i++ {
		a.curFn = a.incl[i]
		for _, b := range a.incl[i].Blocks {
			for _, ins := range b.Instrs {
				a.instr(ins)
			}
		}
	}
	a.curFn = a.fn
}

func (a *ctAnalysis) addFv(v ssa.Value, m map[*ssa.MakeClosure]bool) {
	if len(m) == 0 {
		return
	}
	if a.fv[v] == nil {
		a.fv[v] = map[*ssa.MakeClosure]bool{}
	}
	for c := range m {
		if !a.fv[v][c] {
			a.fv[v][c] = true
			a.changed = true
		}
	}
}

func (a *ctAnalysis) fvOf(v ssa.Value) map[*ssa.MakeClosure]bool {
	if mc, ok := v.(*ssa.MakeClosure); ok {
		return map[*ssa.MakeClosure]bool{mc: true}
	}
	return a.fv[v]
}

// copyVal: dst receives everything known about src
func (a *ctAnalysis) copyVal(dst, src ssa.Value) {
	a.setTaintV(dst, a.valTaint(src))
	a.addPts(dst, a.ptsOf(src))
	a.addFv(dst, a.fvOf(src))
}

func (a *ctAnalysis) instr(ins ssa.Instruction) {
	switch x := ins.(type) {
	case *ssa.DebugRef:
	case *ssa.Alloc:
		o := a.obj(x, "local "+strings.TrimPrefix(x.Comment, "new "))
		if x.Comment == "" {
			o.name = "allocation " + x.Name()
		}
		a.addPts(x, map[*ctObj]bool{o: true})
	case *ssa.MakeSlice:
		a.check("ct-alloc", !a.valTaint(x.Len) && !a.valTaint(x.Cap), x.Pos(), "allocation size is public")
		o := a.obj(x, "make "+x.Name())
		a.addPts(x, map[*ctObj]bool{o: true})
	case *ssa.MakeMap, *ssa.MakeChan:
		o := a.obj(x, "make "+x.(ssa.Value).Name())
		a.addPts(x.(ssa.Value), map[*ctObj]bool{o: true})
	case *ssa.MakeClosure:
		// analysed where it is called
	case *ssa.MakeInterface:
		a.setTaintV(x, a.valTaint(x.X))
		a.addPts(x, a.ptsOf(x.X))
	case *ssa.Phi:
		for _, e := range x.Edges {
			a.copyVal(x, e)
		}
	case *ssa.BinOp:
		t := a.valTaint(x.X) || a.valTaint(x.Y)
		_, constDiv := x.Y.(*ssa.Const)
		if (x.Op == token.QUO || x.Op == token.REM) && !constDiv {
			a.check("ct-div", !t, x.Pos(), "division operands are public (variable-latency instruction)")
		}
		// string / pointer comparison: contents of strings may be secret
		if isPtrLike(x.X.Type()) {
			if b, ok := x.X.Type().Underlying().(*types.Basic); ok && b.Kind() == types.String {
				t = t || a.memTaint(x.X) || a.memTaint(x.Y)
				if x.Op == token.EQL || x.Op == token.NEQ || x.Op == token.LSS || x.Op == token.GTR {
					a.check("ct-call", !t, x.Pos(), "string comparison (early exit) on public data only")
				}
			}
		}
		a.setTaintV(x, t)
		a.addPts(x, a.ptsOf(x.X))
		a.addPts(x, a.ptsOf(x.Y))
	case *ssa.UnOp:
		if x.Op == token.MUL { // load
			t := a.memTaint(x.X)
			a.setTaintV(x, t)
			if isPtrLike(x.Type()) {
				for o := range a.ptsOf(x.X) {
					a.addPts(x, a.cont[o])
					a.addFv(x, a.objFv[o])
				}
			}
		} else {
			a.setTaintV(x, a.valTaint(x.X))
			a.addPts(x, a.ptsOf(x.X))
		}
	case *ssa.Convert:
		t := a.valTaint(x.X)
		a.setTaintV(x, t)
		a.addPts(x, a.ptsOf(x.X))
	case *ssa.ChangeType:
		a.setTaintV(x, a.valTaint(x.X))
		a.addPts(x, a.ptsOf(x.X))
	case *ssa.ChangeInterface:
		a.setTaintV(x, a.valTaint(x.X))
		a.addPts(x, a.ptsOf(x.X))
	case *ssa.SliceToArrayPointer:
		a.addPts(x, a.ptsOf(x.X))
	case *ssa.MultiConvert:
		a.setTaintV(x, a.valTaint(x.X))
		a.addPts(x, a.ptsOf(x.X))
	case *ssa.FieldAddr:
		a.addPts(x, a.ptsOf(x.X))
	case *ssa.Field:
		a.setTaintV(x, a.valTaint(x.X))
		a.addPts(x, a.ptsOf(x.X))
	case *ssa.IndexAddr:
		a.check("ct-index", !a.valTaint(x.Index), x.Pos(), "index "+a.describe(x.Index)+" is public")
		a.addPts(x, a.ptsOf(x.X))
	case *ssa.Index:
		a.check("ct-index", !a.valTaint(x.Index), x.Pos(), "index "+a.describe(x.Index)+" is public")
		t := a.valTaint(x.X)
		if b, ok := x.X.Type().Underlying().(*types.Basic); ok && b.Kind() == types.String {
			t = t || a.memTaint(x.X)
		}
		a.setTaintV(x, t)
		a.addPts(x, a.ptsOf(x.X))
	case *ssa.Lookup:
		a.check("ct-index", !a.valTaint(x.Index) && !a.memTaint(x.Index), x.Pos(), "map/string index is public")
		a.setTaintV(x, a.valTaint(x.X) || a.memTaint(x.X))
		a.addPts(x, a.ptsOf(x.X))
	case *ssa.Slice:
		ok := true
		for _, b := range []ssa.Value{x.Low, x.High, x.Max} {
			if b != nil && a.valTaint(b) {
				ok = false
			}
		}
		a.check("ct-index", ok, x.Pos(), "slice bounds are public")
		a.addPts(x, a.ptsOf(x.X))
	case *ssa.Extract:
		if tt, ok := a.tupleT[x.Tuple]; ok && x.Index < len(tt) {
			a.setTaintV(x, tt[x.Index])
		} else {
			a.setTaintV(x, a.valTaint(x.Tuple))
		}
		if isPtrLike(x.Type()) {
			a.addPts(x, a.ptsOf(x.Tuple))
		}
	case *ssa.TypeAssert:
		a.setTaintV(x, a.valTaint(x.X))
		a.addPts(x, a.ptsOf(x.X))
		if x.CommaOk {
			a.tupleT[x] = []bool{a.valTaint(x.X), false}
		}
	case *ssa.Range:
		a.check("ct-branch", !a.valTaint(x.X) && !a.memTaint(x.X), x.Pos(), "iteration over public data only")
		a.addPts(x, a.ptsOf(x.X))
	case *ssa.Next:
		a.setTaintV(x, a.memTaint(x.Iter))
	case *ssa.Select:
		a.check("ct-branch", false, x.Pos(), "select is outside the analysed subset")
	case *ssa.Store:
		for o := range a.ptsOf(x.Addr) {
			if strings.HasPrefix(o.name, "global ") {
				a.check("ct-global", !a.valTaint(x.Val) && !a.memTaint(x.Val), x.Pos(), "no secret is stored into "+o.name)
			}
		}
		a.store(x.Addr, x.Val, false)
	case *ssa.MapUpdate:
		a.check("ct-index", !a.valTaint(x.Key) && !a.memTaint(x.Key), x.Pos(), "map key is public")
		for o := range a.ptsOf(x.Map) {
			a.setTaintO(o, a.valTaint(x.Value) || a.memTaint(x.Value))
		}
	case *ssa.If:
		a.check("ct-branch", !a.valTaint(x.Cond), x.Cond.Pos(), "branch condition "+a.describe(x.Cond)+" is public")
	case *ssa.Jump, *ssa.RunDefers:
	case *ssa.Panic:
	case *ssa.Return:
		if a.curFn != a.fn {
			for call := range a.callers[a.curFn] {
				if len(x.Results) == 1 {
					a.copyVal(call, x.Results[0])
				} else if len(x.Results) > 1 {
					tt := make([]bool, len(x.Results))
					for i, r := range x.Results {
						tt[i] = a.valTaint(r)
						a.addPts(call, a.ptsOf(r))
					}
					a.setTuple(call, tt)
				}
			}
			break
		}
		for i, r := range x.Results {
			if a.spec.resPublic(i) {
				a.check("ct-result", !a.secretArg(r), x.Pos(), fmt.Sprintf("result #%d is public", i))
			}
		}
	case *ssa.Go, *ssa.Defer:
		a.check("ct-call", false, ins.Pos(), "go/defer are outside the analysed subset")
	case *ssa.Send:
		a.check("ct-call", !a.valTaint(x.X), x.Pos(), "no secret is sent on a channel")
	case *ssa.Call:
		a.call(x)
	default:
		a.check("ct-call", false, ins.Pos(), fmt.Sprintf("instruction %T is outside the analysed subset", ins))
	}
}

func (a *ctAnalysis) call(x *ssa.Call) {
	c := x.Call
	args := c.Args
	anySecret := false
	for _, ar := range args {
		if a.secretArg(ar) {
			anySecret = true
		}
	}
	resultAll := func(t bool) {
		a.setTaintV(x, t)
		if tup, ok := x.Type().(*types.Tuple); ok {
			tt := make([]bool, tup.Len())
			for i := range tt {
				tt[i] = t
			}
			a.setTuple(x, tt)
		}
		if isPtrLike(x.Type()) {
			o := a.obj(x, "result of call "+x.Name())
			a.setTaintO(o, t)
			a.addPts(x, map[*ctObj]bool{o: true})
			for _, ar := range args {
				a.addPts(x, a.ptsOf(ar))
			}
		}
	}
	if c.IsInvoke() {
		recvSecret := a.secretArg(c.Value)
		name := c.Method.Name()
		mode, ok := ctInvoke[name]
		if ok && name == "Write" && isIOWriter(c.Value.Type()) && !anySecret {
			// an io.Writer whose own state is secret (the SHA-512 state) absorbing public bytes
			a.assumed["io.Writer.Write on a secret writer is the SHA-512 state absorbing public bytes"] = true
			resultAll(false)
			return
		}
		if !ok || !isHashIface(c.Value.Type()) {
			a.check("ct-call", !anySecret && !recvSecret, x.Pos(), "interface method "+name+" receives public data only")
			resultAll(anySecret || recvSecret)
			return
		}
		a.assumed["hash.Hash."+name+" (crypto/sha512) is constant-time in the data"] = true
		switch mode {
		case "absorb":
			a.markWritten(c.Value, anySecret)
			resultAll(false) // (n, err): n = len(p), err = nil
		case "squeeze":
			for _, ar := range args {
				a.markWritten(ar, recvSecret || anySecret)
			}
			resultAll(recvSecret || anySecret)
		default:
			resultAll(false)
		}
		return
	}
	switch callee := c.Value.(type) {
	case *ssa.Builtin:
		switch callee.Name() {
		case "len", "cap":
			// lengths are public
		case "copy":
			t := a.memTaint(args[1]) || a.valTaint(args[1])
			a.markWritten(args[0], t)
		case "append":
			t := a.memTaint(args[0])
			for _, ar := range args[1:] {
				t = t || a.memTaint(ar) || a.valTaint(ar)
			}
			o := a.obj(x, "append result "+x.Name())
			a.setTaintO(o, t)
			for ob := range a.ptsOf(args[0]) {
				a.setTaintO(ob, t)
				if !a.written[ob] {
					a.written[ob] = true
					a.changed = true
				}
			}
			a.addPts(x, map[*ctObj]bool{o: true})
			a.addPts(x, a.ptsOf(args[0]))
		case "min", "max":
			resultAll(anySecret)
		case "print", "println":
			a.check("ct-call", !anySecret, x.Pos(), "print receives public data only")
		case "ssa:wrapnilchk":
			a.addPts(x, a.ptsOf(args[0]))
		default:
			a.check("ct-call", !anySecret, x.Pos(), "builtin "+callee.Name()+" receives public data only")
			resultAll(anySecret)
		}
		return
	case *ssa.Function:
		fc, _ := a.en.contractFor(callee)
		key := a.en.funcKey(callee)
		inRepo := callee.Pkg != nil && strings.HasPrefix(callee.Pkg.Pkg.Path(), "github.com/oasisprotocol/ed25519")
		if inRepo {
			if fc != nil && fc.CT != nil {
				for i, p := range callee.Params {
					if i >= len(args) {
						break
					}
					if !fc.CT.paramSecret(p.Name()) {
						a.check("ct-arg", !a.secretArg(args[i]), x.Pos(), fmt.Sprintf("argument %s of %s is public (declared public by its ct clause); got %s", p.Name(), key, a.describe(args[i])))
					}
				}
				if anySecret {
					w := a.en.ctWrites(callee)
					for i, ar := range args {
						if isPtrLike(ar.Type()) && (w == nil || w[i]) {
							a.markWritten(ar, true)
						}
					}
				} else {
					w := a.en.ctWrites(callee)
					for i, ar := range args {
						if isPtrLike(ar.Type()) && (w == nil || w[i]) {
							a.markWritten(ar, false)
						}
					}
				}
				// results
				if tup, ok := x.Type().(*types.Tuple); ok {
					tt := make([]bool, tup.Len())
					for i := range tt {
						tt[i] = anySecret && !fc.CT.resPublic(i)
					}
					a.setTuple(x, tt)
					if isPtrLike(x.Type()) {
						o := a.obj(x, "result of "+key)
						a.setTaintO(o, anySecret)
						a.addPts(x, map[*ctObj]bool{o: true})
						for _, ar := range args {
							a.addPts(x, a.ptsOf(ar))
						}
					}
				} else {
					resultAll(anySecret && !fc.CT.resPublic(0))
				}
				return
			}
			a.check("ct-call", !anySecret, x.Pos(), key+" has no ct clause (variable-time or unreviewed): it receives public data only")
			w := a.en.ctWrites(callee)
			for i, ar := range args {
				if isPtrLike(ar.Type()) && (w == nil || w[i]) {
					a.markWritten(ar, anySecret)
				}
			}
			resultAll(anySecret)
			return
		}
		// external
		key = callee.String()
		mode := ctExtern[key]
		switch mode {
		case "ct":
			a.assumed[key+" is constant-time in its data arguments"] = true
			ro := map[int]bool{}
			for _, i := range ctExternReadonly[key] {
				ro[i] = true
			}
			for i, ar := range args {
				if isPtrLike(ar.Type()) && !ro[i] {
					a.markWritten(ar, anySecret)
				}
			}
			resultAll(anySecret)
		case "entropy":
			a.assumed[key+" delivers the caller's entropy; the bytes read are treated as secret"] = true
			a.check("ct-call", key == "crypto/rand.Read" || !a.secretArg(args[0]), x.Pos(), key+": the reader is public")
			for i, ar := range args {
				if i > 0 || key == "crypto/rand.Read" {
					a.markWritten(ar, true)
				}
			}
			resultAll(false)
		default:
			a.check("ct-call", !anySecret, x.Pos(), key+" is not known to be constant-time: it receives public data only")
			for _, ar := range args {
				if isPtrLike(ar.Type()) {
					a.markWritten(ar, anySecret)
				}
			}
			resultAll(anySecret)
		}
		return
	default:
		if fvs := a.fvOf(c.Value); len(fvs) > 0 {
			for mc := range fvs {
				fn := mc.Fn.(*ssa.Function)
				if !a.inclSet[fn] {
					a.inclSet[fn] = true
					a.incl = append(a.incl, fn)
					a.changed = true
				}
				if a.callers[fn] == nil {
					a.callers[fn] = map[*ssa.Call]bool{}
				}
				a.callers[fn][x] = true
				for i, fvar := range fn.FreeVars {
					a.copyVal(fvar, mc.Bindings[i])
				}
				for i, p := range fn.Params {
					if i < len(args) {
						a.copyVal(p, args[i])
					}
				}
			}
			return
		}
		a.check("ct-call", !anySecret, x.Pos(), "indirect call receives public data only")
		resultAll(anySecret)
	}
}

func (a *ctAnalysis) setTuple(x ssa.Value, tt []bool) {
	old := a.tupleT[x]
	for i := range tt {
		if old != nil && i < len(old) && old[i] {
			tt[i] = true
		}
	}
	if old == nil || fmt.Sprint(old) != fmt.Sprint(tt) {
		a.changed = true
	}
	a.tupleT[x] = tt
}

func isIOWriter(t types.Type) bool {
	n, ok := t.(*types.Named)
	return ok && n.Obj().Pkg() != nil && n.Obj().Pkg().Path() == "io" && n.Obj().Name() == "Writer"
}

func isHashIface(t types.Type) bool {
	n, ok := t.(*types.Named)
	if !ok {
		return false
	}
	return n.Obj().Pkg() != nil && n.Obj().Pkg().Path() == "hash" && n.Obj().Name() == "Hash"
}

// ctWrites: which pointer parameters of fn may be written through (syntactic may-write,
// transitive through repository callees). nil = unknown (treated as all).
func (en *Engine) ctWrites(fn *ssa.Function) map[int]bool {
	if en.ctWriteCache == nil {
		en.ctWriteCache = map[*ssa.Function]map[int]bool{}
		en.ctWriteBusy = map[*ssa.Function]bool{}
	}
	if w, ok := en.ctWriteCache[fn]; ok {
		return w
	}
	if len(fn.Blocks) == 0 || en.ctWriteBusy[fn] {
		return nil
	}
	en.ctWriteBusy[fn] = true
	defer delete(en.ctWriteBusy, fn)
	a := newCTAnalysis(en, fn, &CTSpec{Mode: "secret"})
	a.run()
	w := map[int]bool{}
	for o, i := range a.params {
		if a.written[o] {
			w[i] = true
		}
	}
	en.ctWriteCache[fn] = w
	return w
}

func newCTAnalysis(en *Engine, fn *ssa.Function, spec *CTSpec) *ctAnalysis {
	return &ctAnalysis{en: en, fn: fn, spec: spec, taintV: map[ssa.Value]bool{}, tupleT: map[ssa.Value][]bool{}, pts: map[ssa.Value]map[*ctObj]bool{},
		taintO: map[*ctObj]bool{}, cont: map[*ctObj]map[*ctObj]bool{}, objs: map[interface{}]*ctObj{}, written: map[*ctObj]bool{}, params: map[*ctObj]int{}, seq: map[string]int{}, assumed: map[string]bool{}, fv: map[ssa.Value]map[*ssa.MakeClosure]bool{}, objFv: map[*ctObj]map[*ssa.MakeClosure]bool{}, inclSet: map[*ssa.Function]bool{}, callers: map[*ssa.Function]map[*ssa.Call]bool{}}
}

// CTCheck produces the secrecy obligations of every function with a ct clause.
func (en *Engine) CTCheck(run *checkRun) []*Obligation {
	var out []*Obligation
	var paths []string
	for p := range en.contracts {
		paths = append(paths, p)
	}
	sort.Strings(paths)
	for _, path := range paths {
		pc := en.contracts[path]
		var keys []string
		for k := range pc.Funcs {
			keys = append(keys, k)
		}
		sort.Strings(keys)
		for _, k := range keys {
			fc := pc.Funcs[k]
			if fc.CT == nil {
				continue
			}
			fn := en.lookupFunc(path, k)
			if fn == nil {
				run.undecided = append(run.undecided, fmt.Sprintf("ct clause on %s.%s names a function that does not exist under %s", path, k, en.cfgName))
				continue
			}
			run.funcs[en.funcKey(fn)] = true
			// parameter names of the clause must exist
			for _, n := range fc.CT.Names {
				found := false
				for _, p := range fn.Params {
					if p.Name() == n {
						found = true
					}
				}
				if !found {
					run.undecided = append(run.undecided, fmt.Sprintf("ct clause of %s names unknown parameter %s", en.funcKey(fn), n))
				}
			}
			if len(fn.Blocks) == 0 {
				obls := en.ctAsm(fn, fc, run)
				out = append(out, obls...)
				continue
			}
			a := newCTAnalysis(en, fn, fc.CT)
			a.run()
			// vacuity guard: the function instance was analysed with at least one secret input
			nsec := 0
			for _, p := range fn.Params {
				if fc.CT.paramSecret(p.Name()) {
					nsec++
				}
			}
			a.check("ct-cover", nsec > 0 || len(fn.Params) == 0 || fc.CT.Mode == "secret", fn.Pos(), "the ct clause admits at least one secret parameter")
			out = append(out, a.obls...)
			for k := range a.assumed {
				run.externs["ct: "+k] = true
			}
			run.instances = append(run.instances, instanceInfo{Func: en.funcKey(fn), Config: en.cfgName, Alias: "ct", Paths: 1, Obls: len(a.obls)})
		}
	}
	return out
}

// ---------------------------------------------------------------------------------------------
// assembly: a bodiless function under a ct clause is checked by a mechanical scan of its .s text

var asmAllowed = regexp.MustCompile(`^(MOV[A-Z0-9]*|P[A-Z0-9]+|V?P?[A-Z]*XOR[A-Z]*|AND[A-Z]*|OR[A-Z]*|XOR[A-Z]*|ADD[A-Z]*|SUB[A-Z]*|ADC[A-Z]*|SBB[A-Z]*|NEG[A-Z]*|NOT[A-Z]*|SH[LR][A-Z]*|SA[LR][A-Z]*|RO[LR][A-Z]*|CMP[A-Z]*|TEST[A-Z]*|CMOV[A-Z]*|SET[A-Z]*|LEA[A-Z]*|RET|NOP|BSWAP[A-Z]*)$`)
var asmMem = regexp.MustCompile(`([A-Za-z_0-9+\-·]*)\(([A-Z0-9]+)\)(\([A-Z0-9*]+\))?`)

func (en *Engine) ctAsm(fn *ssa.Function, fc *FuncContract, run *checkRun) []*Obligation {
	key := en.funcKey(fn)
	mk := func(kind string, n int, ok bool, pos, detail string) *Obligation {
		goal := True()
		if !ok {
			goal = False()
		}
		return &Obligation{Name: fmt.Sprintf("%s[%s]/%s#%d", key, en.cfgName, kind, n), Kind: kind, Func: key, Goal: goal, Detail: detail, Pos: pos}
	}
	// locate the TEXT block
	dir := ""
	if fn.Pkg != nil {
		for _, m := range fn.Pkg.Members {
			if f, ok := m.(*ssa.Function); ok && f.Pos().IsValid() {
				dir = filepath.Dir(en.prog.Fset.Position(f.Pos()).Filename)
				break
			}
		}
	}
	files, _ := filepath.Glob(filepath.Join(dir, "*.s"))
	var body []string
	var file string
	var startLine int
	for _, f := range files {
		data, err := os.ReadFile(f)
		if err != nil {
			continue
		}
		lines := strings.Split(string(data), "\n")
		in := false
		for i, l := range lines {
			t := strings.TrimSpace(l)
			if strings.HasPrefix(t, "TEXT") {
				in = strings.Contains(t, "·"+fn.Name()+"(SB)")
				if in {
					file, startLine = f, i+1
				}
				continue
			}
			if in {
				body = append(body, fmt.Sprintf("%d\t%s", i+1, l))
			}
		}
	}
	var out []*Obligation
	if file == "" {
		out = append(out, mk("ct-asm", 1, false, "", "assembly text of "+key+" was not found"))
		return out
	}
	run.externs["ct: amd64 SSE2/ALU instructions "+"(MOV*, P*, logic, add/sub, shifts, CMP, CMOV) have data-independent timing"] = true
	ptrParams := map[string]bool{}
	for _, p := range fn.Params {
		if _, ok := p.Type().Underlying().(*types.Pointer); ok {
			ptrParams[p.Name()] = true
		}
	}
	baseRegs := map[string]bool{}   // registers loaded from pointer parameters
	regWrites := map[string]int{}   // number of instructions writing each general register
	type insn struct {
		line int
		op   string
		ops  []string
	}
	var prog []insn
	for _, l := range body {
		var ln int
		var text string
		parts := strings.SplitN(l, "\t", 2)
		fmt.Sscanf(parts[0], "%d", &ln)
		text = parts[1]
		if i := strings.Index(text, "//"); i >= 0 {
			text = text[:i]
		}
		text = strings.TrimSpace(text)
		if text == "" || strings.HasPrefix(text, "#") {
			continue
		}
		if strings.HasSuffix(text, ":") {
			prog = append(prog, insn{ln, "LABEL", nil})
			continue
		}
		f := strings.Fields(text)
		op := f[0]
		rest := strings.TrimSpace(strings.TrimPrefix(text, op))
		var ops []string
		for _, o := range strings.Split(rest, ",") {
			if s := strings.TrimSpace(o); s != "" {
				ops = append(ops, s)
			}
		}
		prog = append(prog, insn{ln, op, ops})
	}
	n := 0
	for _, in := range prog {
		n++
		pos := fmt.Sprintf("%s:%d", filepath.Base(file), in.line)
		out = append(out, mk("ct-asm-op", n, in.op != "LABEL" && asmAllowed.MatchString(in.op), pos, "instruction "+in.op+" is branch-free and of data-independent timing (no jumps, calls, labels, divisions or string instructions)"))
		if len(in.ops) > 0 {
			dst := in.ops[len(in.ops)-1]
			if regexp.MustCompile(`^[A-Z][A-Z0-9]*$`).MatchString(dst) && !strings.HasPrefix(in.op, "CMP") && !strings.HasPrefix(in.op, "TEST") {
				regWrites[dst]++
				if in.op == "MOVQ" && len(in.ops) == 2 {
					if m := regexp.MustCompile(`^([a-z_0-9]+)\+\d+\(FP\)$`).FindStringSubmatch(in.ops[0]); m != nil && ptrParams[m[1]] {
						baseRegs[dst] = true
					}
				}
			}
		}
	}
	m := 0
	for _, in := range prog {
		pos := fmt.Sprintf("%s:%d", filepath.Base(file), in.line)
		for _, o := range in.ops {
			for _, mm := range asmMem.FindAllStringSubmatch(o, -1) {
				m++
				base := mm[2]
				ok := mm[3] == "" && (base == "FP" || base == "SB" || base == "SP" || (baseRegs[base] && regWrites[base] == 1))
				out = append(out, mk("ct-asm-mem", m, ok, pos, "memory operand "+mm[0]+" has a fixed offset from a pointer argument (no data-dependent address)"))
			}
		}
	}
	_ = startLine
	run.instances = append(run.instances, instanceInfo{Func: key, Config: en.cfgName, Alias: "ct-asm", Paths: 1, Obls: len(out)})
	return out
}
