package main

// Lowering of Go's fixed-width integer operations onto mathematical integers.

import (
	"fmt"
	"go/token"
	"go/types"
	"math/big"
)

func (en *Engine) wrap(st *State, t *Term, bits int, signed bool, what string) *Term {
	if t.op == OConst {
		return Const(wrapConst(t.k, bits, signed))
	}
	var lo, hi *big.Int
	if signed {
		h := pow2(bits - 1)
		lo, hi = new(big.Int).Neg(h), new(big.Int).Sub(h, bi(1))
	} else {
		lo, hi = bi(0), new(big.Int).Sub(pow2(bits), bi(1))
	}
	if !en.noElide {
		iv := st.bounds.Interval(t)
		if iv.lo != nil && iv.hi != nil && iv.lo.Cmp(lo) >= 0 && iv.hi.Cmp(hi) <= 0 {
			st.addSide(And(Le(Const(lo), t), Le(t, Const(hi))), what)
			return t
		}
	}
	m := pow2(bits)
	if signed {
		h := pow2(bits - 1)
		return Sub(Mod(Add(t, Const(h)), m), Const(h))
	}
	return en.mmod(st, t, m)
}

func wrapConst(k *big.Int, bits int, signed bool) *big.Int {
	m := pow2(bits)
	r := new(big.Int).Mod(k, m)
	if signed && r.Cmp(pow2(bits-1)) >= 0 {
		r.Sub(r, m)
	}
	return r
}

// unsignedView gives the value of the two's-complement bit pattern of x.
func (en *Engine) unsignedView(st *State, x *Term, bits int, signed bool) *Term {
	if !signed {
		return x
	}
	if x.op == OConst {
		return Const(new(big.Int).Mod(x.k, pow2(bits)))
	}
	iv := st.bounds.Interval(x)
	if iv.lo != nil && iv.lo.Sign() >= 0 {
		st.addSide(Le(ConstI(0), x), "signed value is non-negative")
		return x
	}
	return Mod(x, pow2(bits))
}

func (en *Engine) fromUnsigned(st *State, u *Term, bits int, signed bool) *Term {
	if !signed {
		return u
	}
	return en.wrap(st, u, bits, true, "bit pattern reinterpretation")
}

// trailing zeros known syntactically (at least)
func tz(t *Term) int {
	switch t.op {
	case OConst:
		if t.k.Sign() == 0 {
			return 1 << 20
		}
		return int(new(big.Int).Abs(t.k).TrailingZeroBits())
	case OMul:
		n := int(new(big.Int).Abs(t.k).TrailingZeroBits())
		for _, a := range t.args {
			n += tz(a)
		}
		return n
	case OAdd:
		m := 1 << 20
		for _, a := range t.args {
			if z := tz(a); z < m {
				m = z
			}
		}
		return m
	case OMod:
		z := tz(t.args[0])
		kz := int(t.k.TrailingZeroBits())
		if t.k.Cmp(pow2(kz)) == 0 { // power of two modulus
			if z >= kz {
				return 1 << 20
			}
			return z
		}
		return 0
	case OIte:
		a, b := tz(t.args[1]), tz(t.args[2])
		if a < b {
			return a
		}
		return b
	}
	return 0
}

// maskRuns decomposes a non-negative constant into maximal runs of set bits.
func maskRuns(k *big.Int) [][2]int { // (start, length)
	var runs [][2]int
	n := k.BitLen()
	i := 0
	for i < n {
		if k.Bit(i) == 1 {
			j := i
			for j < n && k.Bit(j) == 1 {
				j++
			}
			runs = append(runs, [2]int{i, j - i})
			i = j
		} else {
			i++
		}
	}
	return runs
}

// bitop computes x OP y on `bits`-wide values (operands given as Go values of a type with given signedness).
func (en *Engine) bitop(st *State, op token.Token, x, y *Term, bits int, signed bool) *Term {
	if op == token.AND_NOT {
		ny := en.bitnot(st, y, bits, signed)
		return en.bitop(st, token.AND, x, ny, bits, signed)
	}
	ux, uy := en.unsignedView(st, x, bits, signed), en.unsignedView(st, y, bits, signed)
	if ux.op == OConst && uy.op != OConst {
		ux, uy = uy, ux
	}
	var r *Term
	switch {
	case ux.op == OConst && uy.op == OConst:
		v := new(big.Int)
		switch op {
		case token.AND:
			v.And(ux.k, uy.k)
		case token.OR:
			v.Or(ux.k, uy.k)
		case token.XOR:
			v.Xor(ux.k, uy.k)
		}
		r = Const(v)
	case uy.op == OConst && op == token.AND:
		var parts []*Term
		for _, run := range maskRuns(uy.k) {
			s, l := run[0], run[1]
			p := en.mmod(st, en.mdiv(st, ux, pow2(s)), pow2(l))
			parts = append(parts, MulC(p, pow2(s)))
		}
		r = Add(append(parts, ConstI(0))...)
	case uy.op == OConst && uy.k.Sign() == 0:
		r = ux // or/xor with 0
	case uy.op == OConst && op == token.XOR && uy.k.Cmp(new(big.Int).Sub(pow2(bits), bi(1))) == 0:
		r = Sub(Const(uy.k), ux)
	case uy.op == OConst && (op == token.OR || op == token.XOR):
		// per run of the constant: or sets the bits, xor flips them
		r = ux
		for _, run := range maskRuns(uy.k) {
			s, l := run[0], run[1]
			field := Mod(Div(ux, pow2(s)), pow2(l))
			full := Const(new(big.Int).Sub(pow2(l), bi(1)))
			var nf *Term
			if op == token.OR {
				nf = full
			} else {
				nf = Sub(full, field)
			}
			r = Add(r, MulC(Sub(nf, field), pow2(s)))
		}
	default:
		r = en.bitopSym(st, op, ux, uy, bits)
	}
	return en.fromUnsigned(st, r, bits, signed)
}

func (en *Engine) bitnot(st *State, x *Term, bits int, signed bool) *Term {
	if signed {
		return Sub(ConstI(-1), x)
	}
	return Sub(Const(new(big.Int).Sub(pow2(bits), bi(1))), x)
}

var bitopNames = map[token.Token]string{token.AND: "band", token.OR: "bor", token.XOR: "bxor"}

func (en *Engine) bitopSym(st *State, op token.Token, x, y *Term, bits int) *Term {
	// disjoint bit ranges: or/xor is addition, and is zero
	try := func(a, b *Term) *Term {
		k := tz(a)
		if k <= 0 {
			return nil
		}
		if k > bits {
			k = bits
		}
		iv := st.bounds.Interval(b)
		if iv.lo == nil || iv.hi == nil || iv.lo.Sign() < 0 || iv.hi.Cmp(pow2(k)) >= 0 {
			return nil
		}
		st.addSide(And(Eq(Mod(a, pow2(k)), ConstI(0)), Le(ConstI(0), b), Lt(b, Const(pow2(k)))), fmt.Sprintf("operands of %s occupy disjoint bit ranges (split at bit %d)", op, k))
		if op == token.AND {
			return ConstI(0)
		}
		return Add(a, b)
	}
	if !en.noElide {
		if r := try(x, y); r != nil {
			return r
		}
		if r := try(y, x); r != nil {
			return r
		}
	}
	if x == y {
		if op == token.XOR {
			return ConstI(0)
		}
		return x
	}
	// uninterpreted, with instantiated bit-vector lemmas
	name := fmt.Sprintf("%s%d", bitopNames[op], bits)
	if x.id > y.id {
		x, y = y, x
	}
	t := UF(name, SInt, x, y)
	if st.typed[t.id] {
		return t
	}
	st.typed[t.id] = true
	ones := Const(new(big.Int).Sub(pow2(bits), bi(1)))
	zero := ConstI(0)
	st.assume(Le(zero, t))
	st.assume(Le(t, ones))
	// conditional disjointness lemma: if one operand is a multiple of 2^k and the other is below 2^k,
	// or/xor is addition and and is zero
	for _, pr := range [][2]*Term{{x, y}, {y, x}} {
		a, b := pr[0], pr[1]
		if k := tz(a); k > 0 && k < bits {
			var concl *Term
			if op == token.AND {
				concl = Eq(t, zero)
			} else {
				concl = Eq(t, Add(a, b))
			}
			st.assume(Imp(And(Le(zero, b), Lt(b, Const(pow2(k)))), concl))
		}
	}
	switch op {
	case token.AND:
		st.assume(Le(t, x))
		st.assume(Le(t, y))
		st.assume(Imp(Eq(x, zero), Eq(t, zero)))
		st.assume(Imp(Eq(y, zero), Eq(t, zero)))
		st.assume(Imp(Eq(x, ones), Eq(t, y)))
		st.assume(Imp(Eq(y, ones), Eq(t, x)))
	case token.OR:
		st.assume(Le(x, t))
		st.assume(Le(y, t))
		st.assume(Le(t, Add(x, y)))
		st.assume(Imp(Eq(x, zero), Eq(t, y)))
		st.assume(Imp(Eq(y, zero), Eq(t, x)))
		st.assume(Imp(Eq(x, ones), Eq(t, ones)))
		st.assume(Imp(Eq(y, ones), Eq(t, ones)))
		st.assume(Imp(Eq(t, zero), And(Eq(x, zero), Eq(y, zero))))
	case token.XOR:
		st.assume(Le(t, Add(x, y)))
		st.assume(Imp(Eq(x, zero), Eq(t, y)))
		st.assume(Imp(Eq(y, zero), Eq(t, x)))
		st.assume(Eq(Eq(t, zero), Eq(x, y)))
		st.assume(Imp(Eq(x, ones), Eq(t, Sub(ones, y))))
		st.assume(Imp(Eq(y, ones), Eq(t, Sub(ones, x))))
		// involution: xor(x, xor(x,y)) = y and xor(y, xor(x,y)) = x
		mk := func(a, b *Term) *Term {
			if a.id > b.id {
				a, b = b, a
			}
			return UF(name, SInt, a, b)
		}
		st.assume(Eq(mk(x, t), y))
		st.assume(Eq(mk(y, t), x))
	}
	return t
}

// binop evaluates a Go binary operator on integer operands of type t.
func (en *Engine) binop(st *State, op token.Token, x, y *Term, t types.Type, yt types.Type) *Term {
	bits, signed, ok := intInfo(t)
	if !ok {
		fail("binop on non-integer type %s", t)
	}
	switch op {
	case token.ADD:
		return en.wrap(st, Add(x, y), bits, signed, "addition does not wrap")
	case token.SUB:
		return en.wrap(st, Sub(x, y), bits, signed, "subtraction does not wrap")
	case token.MUL:
		return en.wrap(st, Mul(x, y), bits, signed, "multiplication does not wrap")
	case token.QUO, token.REM:
		if y.op != OConst || y.k.Sign() <= 0 {
			fail("division by non-constant or non-positive value")
		}
		if signed {
			iv := st.bounds.Interval(x)
			if iv.lo != nil && iv.lo.Sign() >= 0 {
				st.addSide(Le(ConstI(0), x), "dividend is non-negative")
			} else {
				// truncated division
				q := Ite(Le(ConstI(0), x), Div(x, y.k), Neg(Div(Neg(x), y.k)))
				if op == token.QUO {
					return q
				}
				return Sub(x, Mul(q, y))
			}
		}
		if op == token.QUO {
			return Div(x, y.k)
		}
		return Mod(x, y.k)
	case token.SHL:
		if k, ok := y.ConstInt(); ok {
			if k < 0 {
				fail("negative shift")
			}
			if int(k) >= bits {
				return ConstI(0)
			}
			return en.wrap(st, MulC(x, pow2(int(k))), bits, signed, fmt.Sprintf("left shift by %d does not lose bits", k))
		}
		return en.wrap(st, Mul(x, en.pow2Sym(st, y, bits)), bits, signed, "left shift does not lose bits")
	case token.SHR:
		if k, ok := y.ConstInt(); ok {
			if k < 0 {
				fail("negative shift")
			}
			if int(k) >= bits {
				if signed {
					return Ite(Lt(x, ConstI(0)), ConstI(-1), ConstI(0))
				}
				return ConstI(0)
			}
			return en.mdiv(st, x, pow2(int(k)))
		}
		return DivT(x, en.pow2Sym(st, y, bits))
	case token.AND, token.OR, token.XOR, token.AND_NOT:
		return en.bitop(st, op, x, y, bits, signed)
	}
	fail("unsupported binary operator %s", op)
	return nil
}

// pow2Sym returns 2^y for a symbolic shift count (ite chain over 0..bits).
func (en *Engine) pow2Sym(st *State, y *Term, bits int) *Term {
	iv := st.bounds.Interval(y)
	lo, hi := 0, bits
	if iv.lo != nil && iv.lo.IsInt64() && iv.lo.Int64() > 0 {
		lo = int(iv.lo.Int64())
	}
	if iv.hi != nil && iv.hi.IsInt64() && int(iv.hi.Int64()) < hi {
		hi = int(iv.hi.Int64())
		st.addSide(And(Le(ConstI(int64(lo)), y), Le(y, ConstI(int64(hi)))), "shift count range")
	}
	// value for counts >= bits is irrelevant for SHL (result 0) only if handled by caller; we model 2^min(y,bits)
	r := Const(pow2(hi))
	for k := hi - 1; k >= lo; k-- {
		r = Ite(Eq(y, ConstI(int64(k))), Const(pow2(k)), r)
	}
	return r
}

func (en *Engine) compare(op token.Token, x, y *Term) *Term {
	switch op {
	case token.EQL:
		return Eq(x, y)
	case token.NEQ:
		return Ne(x, y)
	case token.LSS:
		return Lt(x, y)
	case token.LEQ:
		return Le(x, y)
	case token.GTR:
		return Gt(x, y)
	case token.GEQ:
		return Ge(x, y)
	}
	fail("bad comparison %s", op)
	return nil
}

func (en *Engine) convertInt(st *State, x *Term, from, to types.Type) *Term {
	tb, ts, ok := intInfo(to)
	if !ok {
		fail("convert to non-integer %s", to)
	}
	return en.wrap(st, x, tb, ts, fmt.Sprintf("conversion %s -> %s preserves the value", from, to))
}

// divBounded builds Div(x, k) and records the interval implied by x's interval
// (the constructor may rewrite the quotient into a form on which interval
// propagation is imprecise). The recorded bounds only steer heuristics: every
// simplification that relies on them is re-proved by the solver.
func (en *Engine) divBounded(st *State, x *Term, k *big.Int) *Term {
	iv := st.bounds.Interval(x)
	r := Div(x, k)
	if r.op != OConst {
		var lo, hi *big.Int
		if iv.lo != nil {
			lo = floorDiv(iv.lo, k)
		}
		if iv.hi != nil {
			hi = floorDiv(iv.hi, k)
		}
		if lo != nil || hi != nil {
			st.bounds.Set(r, lo, hi)
		}
	}
	return r
}

// bitSplit tries to write x = low + 2^e * high with 0 <= low < 2^e, by splitting
// bounded atoms with power-of-two coefficients at bit e. On success the single
// side condition 0 <= low < 2^e is recorded (it is what makes Div(x,2^e) = high
// and Mod(x,2^e) = low exact); everything else used is an identity of floor division.
func (en *Engine) bitSplit(st *State, x *Term, e int) (low, high *Term, ok bool) {
	if en.noElide || x.op == OConst {
		return nil, nil, false
	}
	l := linOf(x)
	lo, hi := newLin(), newLin()
	k := pow2(e)
	// constant part
	q, r := new(big.Int).DivMod(l.c, k, new(big.Int))
	lo.c, hi.c = r, q
	n := 0
	for id, c := range l.coefs {
		a := l.atoms[id]
		if c.Sign() <= 0 {
			return nil, nil, false
		}
		p := int(c.TrailingZeroBits())
		if c.Cmp(pow2(p)) != 0 {
			// not a power of two: allowed only if entirely above the split
			if new(big.Int).Mod(c, k).Sign() == 0 {
				hi.addAtom(a, new(big.Int).Div(c, k))
				continue
			}
			return nil, nil, false
		}
		if p >= e {
			hi.addAtom(a, pow2(p-e))
			continue
		}
		iv := st.bounds.Interval(a)
		if iv.lo == nil || iv.hi == nil || iv.lo.Sign() < 0 {
			return nil, nil, false
		}
		w := iv.hi.BitLen()
		if p+w <= e {
			lo.addAtom(a, c)
			continue
		}
		j := e - p
		n++
		lo.addTerm(Mod(a, pow2(j)), c)
		hi.addTerm(en.divBounded(st, a, pow2(j)), bi(1))
	}
	low = lo.build()
	iv := st.bounds.Interval(low)
	if iv.lo == nil || iv.hi == nil || iv.lo.Sign() < 0 || iv.hi.Cmp(k) >= 0 {
		return nil, nil, false
	}
	st.addSide(And(Le(ConstI(0), low), Lt(low, Const(k))), fmt.Sprintf("bit fields below bit %d do not overlap", e))
	return low, hi.build(), true
}

func log2Exact(k *big.Int) (int, bool) {
	if k.Sign() <= 0 {
		return 0, false
	}
	e := int(k.TrailingZeroBits())
	return e, k.Cmp(pow2(e)) == 0
}

// mdiv / mmod: Div / Mod by a positive constant, using bitSplit for powers of two.
// pow2Factor returns the largest g <= e such that 2^g divides every coefficient and the constant of x.
func pow2Factor(x *Term, e int) (int, *Term) {
	l := linOf(x)
	if len(l.coefs) == 0 {
		return 0, x
	}
	g := e
	if l.c.Sign() != 0 {
		if z := int(l.c.TrailingZeroBits()); z < g {
			g = z
		}
	}
	for _, c := range l.coefs {
		if z := int(c.TrailingZeroBits()); z < g {
			g = z
		}
	}
	if g <= 0 {
		return 0, x
	}
	n := newLin()
	d := pow2(g)
	for id, c := range l.coefs {
		n.addAtom(l.atoms[id], new(big.Int).Div(c, d))
	}
	n.c = new(big.Int).Div(l.c, d)
	return g, n.build()
}

func (en *Engine) mdiv(st *State, x *Term, k *big.Int) *Term {
	if e, ok := log2Exact(k); ok && e > 0 {
		if g, y := pow2Factor(x, e); g > 0 {
			if g == e {
				return y
			}
			return en.mdiv(st, y, pow2(e-g))
		}
		if _, high, ok := en.bitSplit(st, x, e); ok {
			return high
		}
		if s, ok := en.signQuot(st, x, e); ok {
			return s
		}
	}
	return en.divBounded(st, x, k)
}

func (en *Engine) mmod(st *State, x *Term, k *big.Int) *Term {
	if e, ok := log2Exact(k); ok && e > 0 {
		if g, y := pow2Factor(x, e); g > 0 {
			if g == e {
				return ConstI(0)
			}
			return MulC(en.mmod(st, y, pow2(e-g)), pow2(g))
		}
		if low, _, ok := en.bitSplit(st, x, e); ok {
			return low
		}
		if s, ok := en.signQuot(st, x, e); ok {
			return Sub(x, MulC(s, k))
		}
	}
	return Mod(x, k)
}

// signQuot: if -2^e0 <= x < 2^e0 for some e0 <= e then floor(x/2^e) = floor(x/2^e0) (it is -1 or 0);
// all such quotients of x are normalised to the one with the smallest e0.
func (en *Engine) signQuot(st *State, x *Term, e int) (*Term, bool) {
	if en.noElide {
		return nil, false
	}
	iv := st.bounds.Interval(x)
	if iv.lo == nil || iv.hi == nil || iv.lo.Sign() >= 0 {
		return nil, false
	}
	e0 := iv.hi.BitLen()
	if n := new(big.Int).Neg(iv.lo); n.Cmp(pow2(e0)) > 0 {
		e0 = new(big.Int).Sub(n, bi(1)).BitLen()
	}
	if e0 > e || e0 == 0 {
		return nil, false
	}
	st.addSide(And(Le(Const(new(big.Int).Neg(pow2(e0))), x), Lt(x, Const(pow2(e0)))), fmt.Sprintf("value stays within +-2^%d, so its floor quotients by larger powers of two coincide", e0))
	r := Div(x, pow2(e0))
	st.bounds.Set(r, bi(-1), bi(0))
	return r, true
}
