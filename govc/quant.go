package main

// Deterministic instantiation of quantified assumptions (E-matching done here instead of being
// left to the solvers' heuristics). For an assumption  forall k. body(k)  whose body applies an
// uninterpreted function or an array select to an argument linear in k (k + rest), every ground
// application of the same function / the same array occurring in the goal or in the
// quantifier-free assumptions yields the instance body(arg - rest). Instances are consequences of
// the assumption, so adding them is sound; they make most goals decidable in the quantifier-free
// stage.

import (
	"fmt"
	"math/big"
)

type trigger struct {
	name string // UF name, or "select:<array term id>"
	pos  int    // argument position holding the bound variable
	rest *Term  // argument = k + rest (rest does not mention k)
	coef *big.Int
}

func mentions(t *Term, v *Term, memo map[int]bool) bool {
	if t == v {
		return true
	}
	if r, ok := memo[t.id]; ok {
		return r
	}
	r := false
	for _, a := range t.args {
		if mentions(a, v, memo) {
			r = true
			break
		}
	}
	memo[t.id] = r
	return r
}

// linearIn: t == coef*v + rest with rest free of v
func linearIn(t, v *Term) (*big.Int, *Term, bool) {
	memo := map[int]bool{}
	if t == v {
		return bi(1), ConstI(0), true
	}
	if !mentions(t, v, memo) {
		return nil, nil, false
	}
	if t.op == OAdd {
		var rest []*Term
		var coef *big.Int
		for _, a := range t.args {
			if !mentions(a, v, memo) {
				rest = append(rest, a)
				continue
			}
			if coef != nil {
				return nil, nil, false
			}
			if a == v {
				coef = bi(1)
			} else if a.op == OMul && len(a.args) == 1 && a.args[0] == v && a.k != nil {
				coef = a.k
			} else {
				return nil, nil, false
			}
		}
		if coef == nil {
			return nil, nil, false
		}
		return coef, Add(append(rest, ConstI(0))...), true
	}
	if t.op == OMul && len(t.args) == 1 && t.args[0] == v && t.k != nil {
		return t.k, ConstI(0), true
	}
	return nil, nil, false
}

func arrRoot(a *Term) *Term {
	for a.op == OStore {
		a = a.args[0]
	}
	return a
}

func findTriggers(body, v *Term) []trigger {
	var out []trigger
	seen := map[int]bool{}
	var rec func(t *Term)
	rec = func(t *Term) {
		if seen[t.id] {
			return
		}
		seen[t.id] = true
		switch t.op {
		case OUF:
			for i, a := range t.args {
				if c, rest, ok := linearIn(a, v); ok && c.CmpAbs(bi(1)) == 0 && c.Sign() > 0 {
					out = append(out, trigger{name: "uf:" + t.name, pos: i, rest: rest, coef: c})
				}
			}
		case OSelect:
			if root := arrRoot(t.args[0]); root.op == OVar || root.op == OUF {
				mm := map[int]bool{}
				if c, rest, ok := linearIn(t.args[1], v); ok && c.Sign() > 0 && c.IsInt64() && c.Int64() <= 64 && !mentions(t.args[0], v, mm) {
					out = append(out, trigger{name: fmt.Sprintf("sel:%d", root.id), pos: 1, rest: rest, coef: c})
				}
			}
		case OForall:
			return
		}
		for _, a := range t.args {
			rec(a)
		}
	}
	rec(body)
	return out
}

// instantiateQuantifiers returns instances of the quantified facts relevant to the ground terms
// of the goal and of the quantifier-free facts.
func instantiateQuantifiers(facts []*Term, goal *Term) []*Term {
	type qf struct {
		v, body *Term
		trs     []trigger
	}
	var qs []qf
	for _, f := range facts {
		if f.op != OForall || f.args[0].sort != SInt {
			continue
		}
		trs := findTriggers(f.args[1], f.args[0])
		if len(trs) > 0 {
			qs = append(qs, qf{f.args[0], f.args[1], trs})
		}
	}
	if len(qs) == 0 {
		return nil
	}
	// ground applications
	type app struct {
		name string
		args []*Term
	}
	var apps []app
	seen := map[int]bool{}
	var rec func(t *Term)
	rec = func(t *Term) {
		if seen[t.id] {
			return
		}
		seen[t.id] = true
		switch t.op {
		case OForall:
			return
		case OUF:
			apps = append(apps, app{"uf:" + t.name, t.args})
		case OSelect:
			if root := arrRoot(t.args[0]); root.op == OVar || root.op == OUF {
				apps = append(apps, app{fmt.Sprintf("sel:%d", root.id), t.args})
			}
		case OStore:
			// the updated index is a term of interest for every quantified fact about this array
			if root := arrRoot(t); root.op == OVar || root.op == OUF {
				apps = append(apps, app{fmt.Sprintf("sel:%d", root.id), []*Term{t, t.args[1]}})
			}
		}
		for _, a := range t.args {
			rec(a)
		}
	}
	if goal != nil {
		rec(goal)
	}
	nGoalApps := len(apps)
	for _, f := range facts {
		if f.op != OForall {
			rec(f)
		}
	}
	var out []*Term
	done := map[[2]int]bool{}
	count := 0
	for _, q := range qs {
		for _, tr := range q.trs {
			for ai, ap := range apps {
				if ap.name != tr.name || tr.pos >= len(ap.args) {
					continue
				}
				inst := Sub(ap.args[tr.pos], tr.rest)
				// constant instances are only taken from the goal's own terms: long sums over
				// constant indices would otherwise flood the query
				if inst.op == OConst && ai >= nGoalApps {
					continue
				}
				if tr.coef.Cmp(bi(1)) != 0 {
					// select at index c*k + rest: k = (idx - rest) / c, only when it divides syntactically
					d := inst
					if d.op == OConst {
						qq, rr := new(big.Int).QuoRem(d.k, tr.coef, new(big.Int))
						if rr.Sign() != 0 {
							continue
						}
						inst = Const(qq)
					} else {
						// try: every coefficient divisible by c
						ok := true
						var parts []*Term
						if d.op == OAdd {
							for _, a := range d.args {
								if a.op == OMul && a.k != nil && new(big.Int).Rem(a.k, tr.coef).Sign() == 0 {
									parts = append(parts, MulC(Mul(a.args...), new(big.Int).Quo(a.k, tr.coef)))
								} else if a.op == OConst && new(big.Int).Rem(a.k, tr.coef).Sign() == 0 {
									parts = append(parts, Const(new(big.Int).Quo(a.k, tr.coef)))
								} else {
									ok = false
								}
							}
						} else if d.op == OMul && d.k != nil && new(big.Int).Rem(d.k, tr.coef).Sign() == 0 {
							parts = append(parts, MulC(Mul(d.args...), new(big.Int).Quo(d.k, tr.coef)))
						} else {
							ok = false
						}
						if !ok {
							continue
						}
						inst = Add(append(parts, ConstI(0))...)
					}
				}
				key := [2]int{q.body.id, inst.id}
				if done[key] {
					continue
				}
				done[key] = true
				out = append(out, substitute(q.body, map[int]*Term{q.v.id: inst}, map[int]*Term{}))
				count++
				if count > 400 {
					return out
				}
			}
		}
	}
	return out
}
