package main

import (
	"bytes"
	"context"
	"crypto/sha256"
	"encoding/hex"
	"fmt"
	"math/big"
	"os"
	"os/exec"
	"path/filepath"
	"sort"
	"strings"
	"sync"
	"time"
)

// ---------- intervals ----------

type Ival struct{ lo, hi *big.Int } // nil = unbounded

type Bounds struct {
	m    map[int]Ival
	memo map[int]Ival
}

func NewBounds() *Bounds { return &Bounds{m: map[int]Ival{}, memo: map[int]Ival{}} }

func (b *Bounds) Clone() *Bounds {
	n := NewBounds()
	for k, v := range b.m {
		n.m[k] = v
	}
	return n
}

func maxB(a, b *big.Int) *big.Int {
	if a == nil {
		return b
	}
	if b == nil {
		return a
	}
	if a.Cmp(b) >= 0 {
		return a
	}
	return b
}
func minB(a, b *big.Int) *big.Int {
	if a == nil {
		return b
	}
	if b == nil {
		return a
	}
	if a.Cmp(b) <= 0 {
		return a
	}
	return b
}

func (b *Bounds) Set(t *Term, lo, hi *big.Int) {
	old := b.m[t.id]
	n := Ival{maxB(old.lo, lo), minB(old.hi, hi)}
	if (old.lo == nil) != (n.lo == nil) || (old.hi == nil) != (n.hi == nil) ||
		(old.lo != nil && old.lo.Cmp(n.lo) != 0) || (old.hi != nil && old.hi.Cmp(n.hi) != 0) {
		b.m[t.id] = n
		b.memo = map[int]Ival{}
	}
}

func (b *Bounds) Interval(t *Term) Ival {
	if v, ok := b.memo[t.id]; ok {
		return v
	}
	v := b.compute(t)
	if e, ok := b.m[t.id]; ok {
		v = Ival{maxB(v.lo, e.lo), minB(v.hi, e.hi)}
	}
	b.memo[t.id] = v
	return v
}

func mulIval(a, c Ival) Ival {
	if a.lo == nil || a.hi == nil || c.lo == nil || c.hi == nil {
		// special case: one side is exactly zero
		return Ival{}
	}
	ps := []*big.Int{new(big.Int).Mul(a.lo, c.lo), new(big.Int).Mul(a.lo, c.hi), new(big.Int).Mul(a.hi, c.lo), new(big.Int).Mul(a.hi, c.hi)}
	lo, hi := ps[0], ps[0]
	for _, p := range ps[1:] {
		if p.Cmp(lo) < 0 {
			lo = p
		}
		if p.Cmp(hi) > 0 {
			hi = p
		}
	}
	return Ival{lo, hi}
}

func (b *Bounds) compute(t *Term) Ival {
	switch t.op {
	case OConst:
		return Ival{t.k, t.k}
	case OAdd:
		lo, hi := new(big.Int), new(big.Int)
		var loOK, hiOK = true, true
		for _, a := range t.args {
			iv := b.Interval(a)
			if iv.lo == nil {
				loOK = false
			} else if loOK {
				lo.Add(lo, iv.lo)
			}
			if iv.hi == nil {
				hiOK = false
			} else if hiOK {
				hi.Add(hi, iv.hi)
			}
		}
		r := Ival{}
		if loOK {
			r.lo = lo
		}
		if hiOK {
			r.hi = hi
		}
		return r
	case OMul:
		acc := Ival{t.k, t.k}
		for _, a := range t.args {
			acc = mulIval(acc, b.Interval(a))
		}
		return acc
	case ODiv:
		iv := b.Interval(t.args[0])
		r := Ival{}
		if iv.lo != nil {
			r.lo = floorDiv(iv.lo, t.k)
		}
		if iv.hi != nil {
			r.hi = floorDiv(iv.hi, t.k)
		}
		return r
	case OMod:
		iv := b.Interval(t.args[0])
		if iv.lo != nil && iv.hi != nil {
			ql, qh := floorDiv(iv.lo, t.k), floorDiv(iv.hi, t.k)
			if ql.Cmp(qh) == 0 {
				return Ival{floorMod(iv.lo, t.k), floorMod(iv.hi, t.k)}
			}
		}
		return Ival{bi(0), new(big.Int).Sub(t.k, bi(1))}
	case OIte:
		x, y := b.Interval(t.args[1]), b.Interval(t.args[2])
		r := Ival{}
		if x.lo != nil && y.lo != nil {
			r.lo = minB(x.lo, y.lo)
		}
		if x.hi != nil && y.hi != nil {
			r.hi = maxB(x.hi, y.hi)
		}
		return r
	}
	return Ival{}
}

// Learn extracts simple bounds on atoms from an assumed fact.
func (b *Bounds) Learn(f *Term) {
	switch f.op {
	case OAnd:
		for _, a := range f.args {
			b.Learn(a)
		}
	case OLe, OLt:
		x, y := f.args[0], f.args[1]
		strict := f.op == OLt
		if y.op == OConst && x.op != OConst {
			hi := new(big.Int).Set(y.k)
			if strict {
				hi.Sub(hi, bi(1))
			}
			b.Set(x, nil, hi)
		} else if x.op == OConst && y.op != OConst {
			lo := new(big.Int).Set(x.k)
			if strict {
				lo.Add(lo, bi(1))
			}
			b.Set(y, lo, nil)
		} else if x.op != OConst && y.op != OConst {
			// relational: x <(=) y  propagates y's upper bound to x and x's lower bound to y
			if iy := b.Interval(y); iy.hi != nil {
				hi := new(big.Int).Set(iy.hi)
				if strict {
					hi.Sub(hi, bi(1))
				}
				b.Set(x, nil, hi)
			}
			if ix := b.Interval(x); ix.lo != nil {
				lo := new(big.Int).Set(ix.lo)
				if strict {
					lo.Add(lo, bi(1))
				}
				b.Set(y, lo, nil)
			}
		}
	case OEq:
		x, y := f.args[0], f.args[1]
		if y.op == OConst && x.sort == SInt {
			b.Set(x, y.k, y.k)
		} else if x.op == OConst && y.sort == SInt {
			b.Set(y, x.k, x.k)
		}
	}
}

// ---------- SMT-LIB emission ----------

type Query struct {
	Facts  []*Term
	Goal   *Term  // to be proved; nil means satisfiability (cover) check of Facts
	Axioms []string // raw SMT-LIB assertions (quantified axioms of spec functions)
	AbstractNL bool // replace every nonlinear product / power by a fresh integer (sound for validity)
}

func smtConst(k *big.Int) string {
	if k.Sign() < 0 {
		return "(- " + new(big.Int).Neg(k).String() + ")"
	}
	return k.String()
}

type emitter struct {
	refs   map[int]int
	bound  map[int]bool // contains a bound variable
	names  map[int]string
	defs   []string
	vars   map[string]Sort
	ufs    map[string]bool
	bvars  map[int]bool
	needPow bool
	absNL   bool
}

func (e *emitter) count(t *Term) {
	e.refs[t.id]++
	if e.refs[t.id] > 1 {
		return
	}
	if t.op == OForall {
		e.bvars[t.args[0].id] = true
	}
	for _, a := range t.args {
		e.count(a)
	}
}

func (e *emitter) markBound(t *Term) bool {
	if v, ok := e.bound[t.id]; ok {
		return v
	}
	r := false
	if t.op == OVar && e.bvars[t.id] {
		r = true
	}
	for _, a := range t.args {
		if e.markBound(a) {
			r = true
		}
	}
	e.bound[t.id] = r
	return r
}

func (e *emitter) expr(t *Term) string {
	if n, ok := e.names[t.id]; ok {
		return n
	}
	s := e.raw(t)
	if len(t.args) > 0 && e.refs[t.id] > 1 && !e.bound[t.id] && t.op != OForall {
		n := fmt.Sprintf("t%d", t.id)
		if os.Getenv("GOVC_SPLITVARS") != "" && t.sort == SInt {
			e.defs = append(e.defs, fmt.Sprintf("(declare-fun %s () Int)\n(assert (= %s %s))", n, n, s))
		} else {
			e.defs = append(e.defs, fmt.Sprintf("(define-fun %s () %s %s)", n, t.sort, s))
		}
		e.names[t.id] = n
		return n
	}
	return s
}

func (e *emitter) raw(t *Term) string {
	switch t.op {
	case OConst:
		return smtConst(t.k)
	case OVar:
		if !e.bvars[t.id] {
			e.vars[t.name] = t.sort
		}
		return smtName(t.name)
	case OTrue:
		return "true"
	case OFalse:
		return "false"
	}
	args := make([]string, len(t.args))
	for i, a := range t.args {
		args[i] = e.expr(a)
	}
	j := strings.Join(args, " ")
	switch t.op {
	case OAdd:
		return "(+ " + j + ")"
	case OMul:
		if e.absNL && len(t.args) >= 2 {
			core := mkMulCore(bi(1), t.args)
			n := fmt.Sprintf("nl!%d", core.id)
			e.vars[n] = SInt
			if t.k.Cmp(bi(1)) == 0 {
				return n
			}
			return "(* " + smtConst(t.k) + " " + n + ")"
		}
		if t.k.Cmp(bi(1)) == 0 {
			return "(* " + j + ")"
		}
		return "(* " + smtConst(t.k) + " " + j + ")"
	case ODiv:
		return "(div " + j + " " + smtConst(t.k) + ")"
	case OMod:
		return "(mod " + j + " " + smtConst(t.k) + ")"
	case OPow:
		if e.absNL {
			n := fmt.Sprintf("nl!%d", t.id)
			e.vars[n] = SInt
			return n
		}
		e.needPow = true
		return "(powi " + j + " " + smtConst(t.k) + ")"
	case ODivT:
		return "(div " + j + ")"
	case OModT:
		return "(mod " + j + ")"
	case OIte:
		return "(ite " + j + ")"
	case OEq:
		return "(= " + j + ")"
	case OLe:
		return "(<= " + j + ")"
	case OLt:
		return "(< " + j + ")"
	case OAnd:
		return "(and " + j + ")"
	case OOr:
		return "(or " + j + ")"
	case ONot:
		return "(not " + j + ")"
	case OImp:
		return "(=> " + j + ")"
	case OSelect:
		return "(select " + j + ")"
	case OStore:
		return "(store " + j + ")"
	case OUF:
		e.ufs[t.name] = true
		if len(args) == 0 {
			return smtName(t.name)
		}
		return "(" + smtName(t.name) + " " + j + ")"
	case OForall:
		return fmt.Sprintf("(forall ((%s %s)) %s)", smtName(t.args[0].name), t.args[0].sort, args[1])
	}
	panic("emit: bad op")
}

func smtName(n string) string {
	ok := true
	for _, r := range n {
		if !(r >= 'a' && r <= 'z' || r >= 'A' && r <= 'Z' || r >= '0' && r <= '9' || r == '_' || r == '.' || r == '!' || r == '$') {
			ok = false
		}
	}
	if ok && n != "" && !(n[0] >= '0' && n[0] <= '9') {
		return n
	}
	return "|" + n + "|"
}

// Emit renders the query. wantModel adds get-model / get-value.
func (q *Query) Emit(wantModel bool) string {
	e := &emitter{refs: map[int]int{}, bound: map[int]bool{}, names: map[int]string{}, vars: map[string]Sort{}, ufs: map[string]bool{}, bvars: map[int]bool{}, absNL: q.AbstractNL}
	all := append([]*Term(nil), q.Facts...)
	if q.Goal != nil {
		all = append(all, q.Goal)
	}
	for _, t := range all {
		e.count(t)
	}
	for _, t := range all {
		e.markBound(t)
	}
	var asserts []string
	for _, f := range q.Facts {
		if f.IsTrue() {
			continue
		}
		asserts = append(asserts, "(assert "+e.expr(f)+")")
	}
	if q.Goal != nil {
		asserts = append(asserts, "(assert (not "+e.expr(q.Goal)+"))")
	}
	var sb strings.Builder
	sb.WriteString("(set-option :produce-models true)\n(set-logic ALL)\n")
	var sorts []string
	TS.mu.Lock()
	for s := range TS.sorts {
		sorts = append(sorts, s)
	}
	ufsSnap := make(map[string]UFDecl, len(TS.ufs))
	for n, d := range TS.ufs {
		ufsSnap[n] = d
	}
	TS.mu.Unlock()
	sort.Strings(sorts)
	for _, s := range sorts {
		fmt.Fprintf(&sb, "(declare-sort %s 0)\n", s)
	}
	// declare every known UF (axioms may mention ones not in the terms)
	var ufn []string
	for n := range ufsSnap {
		ufn = append(ufn, n)
	}
	sort.Strings(ufn)
	axtext := strings.Join(q.Axioms, "\n")
	for _, n := range ufn {
		if !e.ufs[n] && !strings.Contains(axtext, n) {
			continue
		}
		d := ufsSnap[n]
		as := make([]string, len(d.Args))
		for i, a := range d.Args {
			as[i] = string(a)
		}
		fmt.Fprintf(&sb, "(declare-fun %s (%s) %s)\n", smtName(n), strings.Join(as, " "), d.Res)
	}
	if e.needPow {
		sb.WriteString("(declare-fun powi (Int Int) Int)\n")
	}
	var vn []string
	for n := range e.vars {
		vn = append(vn, n)
	}
	sort.Strings(vn)
	for _, n := range vn {
		fmt.Fprintf(&sb, "(declare-fun %s () %s)\n", smtName(n), e.vars[n])
	}
	for _, a := range q.Axioms {
		sb.WriteString(a)
		sb.WriteByte('\n')
	}
	for _, d := range e.defs {
		sb.WriteString(d)
		sb.WriteByte('\n')
	}
	for _, a := range asserts {
		sb.WriteString(a)
		sb.WriteByte('\n')
	}
	sb.WriteString("(check-sat)\n")
	if wantModel {
		// values of array elements read at constant indices
		var sels []string
		seenSel := map[int]bool{}
		for _, t := range all {
			walk(t, seenSel, func(x *Term) {
				if x.op == OSelect && x.args[0].op == OVar && x.args[1].op == OConst && !e.bvars[x.args[0].id] {
					sels = append(sels, "(select "+smtName(x.args[0].name)+" "+smtConst(x.args[1].k)+")")
				}
			})
		}
		if len(sels) > 0 && len(sels) < 4000 {
			sb.WriteString("(get-value (" + strings.Join(sels, " ") + "))\n")
		}
		if len(vn) > 0 {
			sb.WriteString("(get-value (")
			for _, n := range vn {
				if e.vars[n] == SInt || e.vars[n] == SBool {
					sb.WriteString(smtName(n) + " ")
				}
			}
			sb.WriteString("))\n")
		}
	}
	return sb.String()
}

// ---------- solver runner ----------

type SolverResult struct {
	Verdict string // "unsat", "sat", "unknown", "timeout", "error"
	Solver  string
	Time    float64
	Output  string
	Script  string
}

type solverSpec struct {
	name string
	argv []string
}

var solverSpecs = []solverSpec{
	{"z3-new", []string{"z3-new", "-smt2"}},
	{"z3", []string{"z3", "-smt2"}},
	{"cvc5", []string{"cvc5", "--lang=smt2", "--produce-models"}},
}

var solverSem = make(chan struct{}, 14)

var scratchDir string
var scratchOnce sync.Once

func scratch() string {
	scratchOnce.Do(func() {
		d, err := os.MkdirTemp("", "govc-")
		if err != nil {
			panic(err)
		}
		scratchDir = d
	})
	return scratchDir
}

func runOne(ctx context.Context, sp solverSpec, file string, timeout time.Duration) SolverResult {
	solverSem <- struct{}{}
	defer func() { <-solverSem }()
	if ctx.Err() != nil {
		return SolverResult{Verdict: "cancelled", Solver: sp.name}
	}
	cctx, cancel := context.WithTimeout(ctx, timeout)
	defer cancel()
	args := append([]string(nil), sp.argv[1:]...)
	if sp.name == "cvc5" {
		args = append(args, fmt.Sprintf("--tlimit=%d", timeout.Milliseconds()))
	} else {
		args = append(args, fmt.Sprintf("-T:%d", int(timeout.Seconds())+1))
	}
	args = append(args, file)
	cmd := exec.CommandContext(cctx, sp.argv[0], args...)
	var out bytes.Buffer
	cmd.Stdout = &out
	cmd.Stderr = &out
	t0 := time.Now()
	_ = cmd.Run()
	el := time.Since(t0).Seconds()
	o := out.String()
	first := strings.TrimSpace(strings.SplitN(o, "\n", 2)[0])
	v := "error"
	switch {
	case first == "unsat":
		v = "unsat"
	case first == "sat":
		v = "sat"
	case first == "unknown":
		v = "unknown"
	case cctx.Err() != nil || strings.Contains(first, "timeout") || strings.Contains(o, "interrupted"):
		v = "timeout"
	}
	if ctx.Err() != nil && v != "unsat" && v != "sat" {
		v = "cancelled"
	}
	return SolverResult{Verdict: v, Solver: sp.name, Time: el, Output: o}
}

var queryCounter int
var queryMu sync.Mutex

// memo of verdicts for byte-identical scripts within one process (cones overlap).
var verdictMemo sync.Map

// Solve races the installed solvers on the query. If needBoth is set, two
// distinct solvers must agree on unsat (thorough tier).
func Solve(q *Query, timeout time.Duration, wantModel bool, solvers []string) SolverResult {
	script := q.Emit(wantModel)
	h := sha256.Sum256([]byte(script))
	key := hex.EncodeToString(h[:]) + strings.Join(solvers, ",")
	if v, ok := verdictMemo.Load(key); ok {
		r := v.(SolverResult)
		return r
	}
	queryMu.Lock()
	queryCounter++
	n := queryCounter
	queryMu.Unlock()
	file := filepath.Join(scratch(), fmt.Sprintf("q%06d.smt2", n))
	if err := os.WriteFile(file, []byte(script), 0o644); err != nil {
		return SolverResult{Verdict: "error", Output: err.Error()}
	}
	defer os.Remove(file)
	ctx, cancel := context.WithCancel(context.Background())
	defer cancel()
	var specs []solverSpec
	for _, sp := range solverSpecs {
		if len(solvers) == 0 {
			specs = append(specs, sp)
			continue
		}
		for _, s := range solvers {
			if s == sp.name {
				specs = append(specs, sp)
			}
		}
	}
	// most queries are decided by z3 5.x within a second: give it a short head start alone,
	// then race all solvers (this keeps the machine's cores for other obligations)
	if len(solvers) == 0 && timeout > 2*time.Second {
		for _, sp := range specs {
			if sp.name != "z3-new" {
				continue
			}
			r := runOne(ctx, sp, file, 1500*time.Millisecond)
			if r.Verdict == "unsat" || r.Verdict == "sat" {
				r.Script = script
				verdictMemo.Store(key, r)
				return r
			}
		}
	}
	ch := make(chan SolverResult, len(specs))
	for _, sp := range specs {
		sp := sp
		go func() { ch <- runOne(ctx, sp, file, timeout) }()
	}
	best := SolverResult{Verdict: "unknown"}
	var outs []string
	for range specs {
		r := <-ch
		if r.Verdict == "unsat" || r.Verdict == "sat" {
			r.Script = script
			cancel()
			verdictMemo.Store(key, r)
			return r
		}
		outs = append(outs, fmt.Sprintf("%s: %s (%.1fs) %s", r.Solver, r.Verdict, r.Time, firstLines(r.Output, 3)))
		if best.Verdict == "unknown" && r.Verdict == "timeout" {
			best.Verdict = "timeout"
		}
		if r.Time > best.Time {
			best.Time = r.Time
		}
	}
	best.Output = strings.Join(outs, "\n")
	best.Script = script
	return best
}

func firstLines(s string, n int) string {
	ls := strings.Split(strings.TrimSpace(s), "\n")
	if len(ls) > n {
		ls = ls[:n]
	}
	return strings.Join(ls, " | ")
}

// parseModel reads a (get-value ...) answer into name -> value text.
func parseModel(out string) map[string]string {
	m := map[string]string{}
	i := strings.Index(out, "(")
	if i < 0 {
		return m
	}
	s := out[i:]
	// tokens
	toks := tokenize(s)
	// expect ( ( name value ) ( name value ) ... )
	pos := 0
	var parse func() interface{}
	parse = func() interface{} {
		if pos >= len(toks) {
			return nil
		}
		t := toks[pos]
		pos++
		if t == "(" {
			var l []interface{}
			for pos < len(toks) && toks[pos] != ")" {
				l = append(l, parse())
			}
			pos++
			return l
		}
		return t
	}
	for pos < len(toks) {
		top := parse()
		l, ok := top.([]interface{})
		if !ok {
			continue
		}
		for _, e := range l {
			p, ok := e.([]interface{})
			if !ok || len(p) != 2 {
				continue
			}
			name, ok := p[0].(string)
			if !ok {
				// (select arr idx)
				if l3, ok3 := p[0].([]interface{}); ok3 && len(l3) == 3 {
					if h, _ := l3[0].(string); h == "select" {
						an, _ := l3[1].(string)
						m[strings.Trim(an, "|")+"["+sexprInt(l3[2])+"]"] = sexprInt(p[1])
					}
				}
				continue
			}
			m[strings.Trim(name, "|")] = sexprInt(p[1])
		}
	}
	return m
}

func sexprInt(v interface{}) string {
	switch x := v.(type) {
	case string:
		return x
	case []interface{}:
		if len(x) == 2 {
			if s, ok := x[0].(string); ok && s == "-" {
				return "-" + sexprInt(x[1])
			}
		}
	}
	return "?"
}

func tokenize(s string) []string {
	var toks []string
	i := 0
	for i < len(s) {
		c := s[i]
		switch {
		case c == '(' || c == ')':
			toks = append(toks, string(c))
			i++
		case c == ' ' || c == '\n' || c == '\t' || c == '\r':
			i++
		case c == '|':
			j := strings.IndexByte(s[i+1:], '|')
			if j < 0 {
				return toks
			}
			toks = append(toks, s[i:i+j+2])
			i += j + 2
		default:
			j := i
			for j < len(s) && !strings.ContainsRune("() \n\t\r", rune(s[j])) {
				j++
			}
			toks = append(toks, s[i:j])
			i = j
		}
	}
	return toks
}
